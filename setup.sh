#!/bin/bash
# setup_cmd: builds the harness flavours once (warms the Go build cache). Offline.
HERE="$(cd "$(dirname "$0")" && pwd)"
. "$HERE/env.sh"
cd "$HERE/harness" || exit 1
prep_module || exit 1
for f in plain race asan; do
  echo "building flavour $f"; build_flavor $f || exit 1
done
echo "setup ok"
