// verifd: supervisor and child of the runtime-monitoring harness.
//
//	verifd sup   <ID> --tier quick|thorough --seed N --verif /verif --bin plain=/path [--bin race=/path]
//	verifd child <ID> <casesfile> <from> <to> <outfile> <flavor> <tier>
//	verifd replay <file> --bin flavor=/path
package main

import (
	"encoding/json"
	"fmt"
	"os"
	"os/exec"
	"path/filepath"
	"strconv"
	"strings"

	"verif/lib"
	_ "verif/props"
)

func main() {
	if len(os.Args) < 2 {
		fmt.Println("usage: verifd sup|child|replay ...")
		os.Exit(3)
	}
	switch os.Args[1] {
	case "child":
		a := os.Args[2:]
		if len(a) < 7 {
			fmt.Println("child: bad args")
			os.Exit(3)
		}
		from, _ := strconv.Atoi(a[2])
		to, _ := strconv.Atoi(a[3])
		replay := len(a) > 7 && a[7] == "replay"
		os.Exit(lib.ChildMain(a[0], a[1], from, to, a[4], a[5], a[6], replay))
	case "sup":
		o := lib.SupOpts{ID: os.Args[2], Tier: "quick", Seed: 1, VerifDir: "/verif", Binaries: map[string]string{}}
		args := os.Args[3:]
		for i := 0; i < len(args); i++ {
			switch args[i] {
			case "--tier":
				i++
				o.Tier = args[i]
			case "--seed":
				i++
				s, _ := strconv.ParseUint(args[i], 10, 64)
				o.Seed = s
			case "--verif":
				i++
				o.VerifDir = args[i]
			case "--parallel":
				i++
				o.Parallel, _ = strconv.Atoi(args[i])
			case "--bin":
				i++
				kv := strings.SplitN(args[i], "=", 2)
				o.Binaries[kv[0]] = kv[1]
			}
		}
		os.Exit(lib.Supervise(o))
	case "flavors":
		p := lib.Lookup(os.Args[2])
		if p == nil {
			os.Exit(3)
		}
		fl := []string{"plain"}
		if p.Flavors != nil {
			fl = p.Flavors(os.Args[3])
		}
		fmt.Println(strings.Join(fl, " "))
	case "list":
		fmt.Println(strings.Join(lib.AllIDs(), " "))
	case "replay":
		file := os.Args[2]
		bins := map[string]string{}
		args := os.Args[3:]
		for i := 0; i < len(args); i++ {
			if args[i] == "--bin" {
				i++
				kv := strings.SplitN(args[i], "=", 2)
				bins[kv[0]] = kv[1]
			}
		}
		b, err := os.ReadFile(file)
		if err != nil {
			fmt.Println(err)
			os.Exit(3)
		}
		var rp struct {
			Property string   `json:"property"`
			Tier     string   `json:"tier"`
			Flavor   string   `json:"flavor"`
			Case     lib.Case `json:"case"`
		}
		if err := json.Unmarshal(b, &rp); err != nil {
			fmt.Println(err)
			os.Exit(3)
		}
		dir, _ := os.MkdirTemp("", "verif-replay-")
		defer os.RemoveAll(dir)
		cf := filepath.Join(dir, "cases.json")
		cb, _ := json.Marshal([]lib.Case{rp.Case})
		os.WriteFile(cf, cb, 0o644)
		out := filepath.Join(dir, "out.jsonl")
		fparts := strings.SplitN(rp.Flavor, ":", 2)
		bin := bins[fparts[0]]
		if bin == "" {
			bin = os.Args[0]
		}
		cmd := exec.Command(bin, "child", rp.Property, cf, "0", "1", out, rp.Flavor, rp.Tier, "replay")
		cmd.Env = os.Environ()
		if p := lib.Lookup(rp.Property); p != nil {
			cmd.Env = append(cmd.Env, p.ChildEnv...)
		}
		if len(fparts) == 2 {
			cmd.Env = append(cmd.Env, strings.Split(fparts[1], ",")...)
		}
		cmd.Stdout = os.Stderr
		cmd.Stderr = os.Stderr
		err = cmd.Run()
		ob, _ := os.ReadFile(out)
		fmt.Println(string(ob))
		if err != nil {
			fmt.Println("child exited:", err)
			os.Exit(1)
		}
		if strings.Contains(string(ob), `"verdict":"violated"`) {
			os.Exit(1)
		}
	default:
		fmt.Println("unknown subcommand")
		os.Exit(3)
	}
}
