package lib

import (
	"fmt"
	"sort"
	"strings"
)

const (
	KB = 1024
	MB = 1024 * 1024
	BS = 64 * KB // wharf block size
)

// BoundarySizes is the boundary-directed size set of DESIGN §4.1.
var BoundarySizes = []int64{0, 1, 2, 15, 16, 17, 4095, 8191, 8192, 8193, 16383, 16384, 16385,
	32*KB - 1, 32 * KB, 32*KB + 1, 64*KB - 1, 64 * KB, 64*KB + 1,
	128*KB - 1, 128 * KB, 128*KB + 1, 3*64*KB + 17, 1*MB - 1, 1*MB + 5}

// BigSizes need a budget (at most a few per pair).
var BigSizes = []int64{4*MB - 1, 4 * MB, 4*MB + 1, 4*MB + 64*KB - 1, 4*MB + 64*KB + 1, 5*MB + 3, 8*MB + 64*KB + 9}

// Content classes.
const (
	CRandom = "rand"
	CZero   = "zero"
	CPeriod = "period"
	CSoup   = "soup"
)

// MakeContent builds n bytes of the given class keyed by key.
func MakeContent(class string, n int64, key uint64, r *Rng) []byte {
	p := make([]byte, n)
	switch class {
	case CZero:
	case CPeriod:
		periods := []int{1, 2, 3, 5, 7, 64*KB - 1, 64 * KB, 64*KB + 1}
		per := periods[int(key%uint64(len(periods)))]
		pat := RandomBytes(int64(per), key^0x55)
		for i := range p {
			p[i] = pat[i%per]
		}
	default:
		FillRandom(p, key)
	}
	return p
}

// Pair is an (old, new) build pair plus the relation labels that produced it.
type Pair struct {
	Old, New *Build
	Feat     map[string]bool
	// Edits records, per new path, bytes introduced and edit count (for C08).
	Edits map[string]EditInfo
}

type EditInfo struct {
	OldPath    string
	Introduced int64
	K          int
}

func (p *Pair) feat(f string) { p.Feat[f] = true }

// FeatList returns the sorted relation labels.
func (p *Pair) FeatList() []string {
	var out []string
	for f := range p.Feat {
		out = append(out, f)
	}
	sort.Strings(out)
	return out
}

// Signature is the feature signature of the pair.
func (p *Pair) Signature() string { return strings.Join(p.FeatList(), "+") }

// NonTrivial says whether the pair has at least one relation other than "unchanged".
func (p *Pair) NonTrivial() bool {
	for f := range p.Feat {
		if !strings.HasPrefix(f, "unchanged") && !strings.HasPrefix(f, "size:") && !strings.HasPrefix(f, "content:") {
			return true
		}
	}
	return false
}

// GenOpts steers GenPair.
type GenOpts struct {
	MaxFile    int64 // cap on ordinary file sizes (0 = 1 MiB+5)
	BigBudget  int   // how many ≥4 MiB files are allowed
	KindSwaps  bool  // allow file<->dir<->symlink swaps between old and new
	PathFocus  bool  // weight path-level relations (C02) and keep files small
	NoSymlinks bool
	ManyTiny   bool // add ≥300 tiny files
	MinFiles   int
	MaxFiles   int
	// ForceKindSwap (1..7) adds exactly that kind swap; ForceRename makes the replaced
	// entry (or its child) also the source of a rename.
	ForceKindSwap int
	ForceRename   bool
	// WrapEdit adds a file larger than the differ's 4 MiB + 2 block buffer whose only edits sit
	// exactly where that buffer wraps (block 66) - unchanged before, unchanged after.
	WrapEdit        bool
	HeaderThenFresh bool // a new file = first block of an old file + a little more than 4 MiB of fresh data up to its end
	// EmptyOld / EmptyNew: one side of the pair is a completely empty directory
	EmptyOld, EmptyNew bool
}

var dirPool = []string{"", "", "a/", "a/b/", "c/", "c/d/e/", "data/", "bin/", "dir with space/", "ünï/çødé 日本/", "-dash/.hidden/"}

func sizeClass(n int64) string {
	switch {
	case n == 0:
		return "size:0"
	case n < BS:
		return "size:<1blk"
	case n%BS == 0:
		return "size:aligned"
	case n < 4*MB:
		return "size:multi"
	default:
		return "size:>=4M"
	}
}

type genState struct {
	r     *Rng
	o     GenOpts
	p     *Pair
	big   int
	nameN int
	seed  uint64
}

func (g *genState) pickSize() int64 {
	r := g.r
	max := g.o.MaxFile
	if max == 0 {
		max = 1*MB + 5
	}
	if g.big < g.o.BigBudget && r.Chance(0.5) {
		g.big++
		return r.PickI64(BigSizes)
	}
	for try := 0; try < 20; try++ {
		var n int64
		switch r.Intn(4) {
		case 0, 1:
			n = r.PickI64(BoundarySizes)
		case 2:
			n = r.Range64(0, 3*BS)
		default:
			n = r.Range64(0, max)
		}
		if n <= max {
			return n
		}
	}
	return r.Range64(0, max)
}

func (g *genState) pickClass() string {
	switch g.r.Intn(10) {
	case 0:
		return CZero
	case 1, 2:
		return CPeriod
	default:
		return CRandom
	}
}

func (g *genState) newName(b1, b2 *Build) string {
	for {
		g.nameN++
		d := g.r.PickStr(dirPool)
		p := fmt.Sprintf("%sf%02d.bin", d, g.nameN)
		if b1.CanPlace(p) && (b2 == nil || b2.CanPlace(p)) {
			return p
		}
	}
}

func (g *genState) content(n int64) ([]byte, string) {
	c := g.pickClass()
	key := g.r.Uint64()
	return MakeContent(c, n, key, g.r), c
}

// applyEdits performs k localized edits and returns the new content and bytes introduced.
func applyEdits(r *Rng, data []byte, k int) ([]byte, int64) {
	out := append([]byte(nil), data...)
	var introduced int64
	lens := []int64{1, 10, 1000, BS - 1, BS, BS + 1, 100000, 300000}
	for i := 0; i < k; i++ {
		l := r.PickI64(lens)
		if int64(len(out)) > 0 && l > int64(len(out)) {
			l = r.Range64(1, int64(len(out)))
		}
		var off int64
		if len(out) > 0 {
			switch r.Intn(6) {
			case 0:
				off = 0
			case 1:
				off = (r.Range64(0, int64(len(out))) / BS) * BS
			case 2:
				off = int64(len(out)) - r.Range64(0, min64(int64(len(out)), 2*BS))
			default:
				off = r.Range64(0, int64(len(out)))
			}
		}
		switch r.Intn(3) {
		case 0: // overwrite
			end := off + l
			if end > int64(len(out)) {
				end = int64(len(out))
			}
			if end > off {
				FillRandom(out[off:end], r.Uint64())
				introduced += end - off
			}
		case 1: // insert
			ins := RandomBytes(l, r.Uint64())
			out = append(out[:off:off], append(ins, out[off:]...)...)
			introduced += l
		default: // delete
			end := off + l
			if end > int64(len(out)) {
				end = int64(len(out))
			}
			out = append(out[:off:off], out[end:]...)
		}
	}
	return out, introduced
}

func min64(a, b int64) int64 {
	if a < b {
		return a
	}
	return b
}

// GenPair draws an (old,new) pair; everything depends only on seed and opts.
func GenPair(seed uint64, o GenOpts) *Pair {
	r := NewRng(seed)
	p := &Pair{Old: NewBuild(), New: NewBuild(), Feat: map[string]bool{}, Edits: map[string]EditInfo{}}
	g := &genState{r: r, o: o, p: p, seed: seed}
	if o.PathFocus && o.MaxFile == 0 {
		g.o.MaxFile = 200 * KB
	}
	minF, maxF := o.MinFiles, o.MaxFiles
	if minF == 0 {
		minF = 1
	}
	if maxF == 0 {
		maxF = 6
	}
	nOld := r.Range(minF, maxF)
	type of struct {
		path string
		data []byte
	}
	var olds []of
	for i := 0; i < nOld; i++ {
		n := g.pickSize()
		data, class := g.content(n)
		if class == CRandom && i > 0 && r.Chance(0.15) && len(olds[i-1].data) >= 2*BS {
			// block soup: share whole blocks with the previous old file
			src := olds[i-1].data
			data = nil
			for len(data) < int(n) {
				bi := r.Intn(len(src) / BS)
				data = append(data, src[bi*BS:(bi+1)*BS]...)
			}
			if int64(len(data)) > n && n > 0 {
				data = data[:n]
			}
			class = CSoup
		}
		path := g.newName(p.Old, nil)
		p.Old.PutFile(path, data)
		olds = append(olds, of{path, data})
		p.feat("content:" + class)
		p.feat(sizeClass(int64(len(data))))
	}

	if o.WrapEdit {
		n := int64(r.Range(70, 100))*BS + int64(r.Intn(BS))
		d := RandomBytes(n, r.Uint64())
		nd := append([]byte(nil), d...)
		wrap := int64(66 * BS)
		switch r.Intn(4) {
		case 0: // the whole block right after the wrap point
			FillRandom(nd[wrap:wrap+BS], r.Uint64())
		case 1: // a few bytes at the start of it
			FillRandom(nd[wrap:wrap+int64(r.Range(1, 300))], r.Uint64())
		case 2: // the last bytes before the wrap point
			FillRandom(nd[wrap-int64(r.Range(1, 300)):wrap], r.Uint64())
		default: // an insertion right at the wrap point (everything after it shifts)
			ins := RandomBytes(int64(r.Range(1, 5000)), r.Uint64())
			nd = append(nd[:wrap:wrap], append(ins, nd[wrap:]...)...)
		}
		p.Old.PutFile("wrap/big.bin", d)
		p.New.PutFile("wrap/big.bin", nd)
		p.feat("edit-at-differ-buffer-wrap")
	}
	if o.HeaderThenFresh {
		h := RandomBytes(int64(r.Range(1, 3))*BS+int64(r.Intn(3000)), r.Uint64())
		p.Old.PutFile("pack/header.bin", h)
		p.New.PutFile("pack/header.bin", h)
		nb := r.Range(1, len(h)/BS)
		p.New.PutFile("pack/pack.bin", append(append([]byte(nil), h[:nb*BS]...), RandomBytes(int64(4*MB)+int64(r.PickInt([]int{1, 1000, BS / 2, BS - 1, BS, BS + 1})), r.Uint64())...))
		p.feat("old-blocks-then-4MiB+-fresh-to-the-end")
	}
	// derive new from old
	used := map[int]bool{}
	relW := []string{"unchanged", "unchanged", "renamed", "dup", "edit", "edit", "prefix", "suffix", "middle", "grow", "shrink", "empty", "deleted", "fromempty"}
	if o.PathFocus {
		relW = []string{"unchanged", "renamed", "renamed", "dup", "dup", "dupdrop", "edit", "patched+renamesrc", "patched+dupsrc", "grow", "shrink", "empty", "deleted", "swap", "chain", "dupclobber", "dupclobber"}
	} else {
		relW = append(relW, "dupdrop", "patched+renamesrc", "patched+dupsrc", "swap", "chain", "concat", "dupclobber", "splice", "splice")
	}
	place := func(path string, data []byte) bool {
		if !p.New.CanPlace(path) {
			return false
		}
		p.New.PutFile(path, data)
		return true
	}
	for i := 0; i < len(olds); i++ {
		if used[i] {
			continue
		}
		f := olds[i]
		rel := r.PickStr(relW)
		switch rel {
		case "unchanged":
			if place(f.path, f.data) {
				p.feat("unchanged")
			}
		case "renamed":
			if place(g.newName(p.New, p.Old), f.data) {
				p.feat("renamed")
			}
		case "dup", "dupdrop":
			n := r.Range(2, 3)
			for j := 0; j < n; j++ {
				place(g.newName(p.New, p.Old), f.data)
			}
			if rel == "dup" {
				place(f.path, f.data)
			}
			p.feat(rel)
		case "edit":
			k := r.Range(1, 4)
			nd, intro := applyEdits(r, f.data, k)
			np := f.path
			if r.Chance(0.25) {
				np = g.newName(p.New, p.Old)
				p.feat("edit+rename")
			}
			if place(np, nd) {
				p.Edits[np] = EditInfo{OldPath: f.path, Introduced: intro, K: k}
				p.feat("edit")
			}
		case "patched+renamesrc":
			nd, _ := applyEdits(r, f.data, 1)
			if place(f.path, nd) {
				place(g.newName(p.New, p.Old), f.data)
				p.feat("patched+renamesrc")
			}
		case "patched+dupsrc":
			// the file is edited in place AND its old content appears under several new names
			nd, _ := applyEdits(r, f.data, 1)
			if place(f.path, nd) {
				n := r.Range(2, 3)
				for j := 0; j < n; j++ {
					place(g.newName(p.New, p.Old), f.data)
				}
				p.feat("patched+dupsrc")
			}
		case "prefix", "suffix", "middle":
			nb := int64(len(f.data)) / BS
			if nb < 2 {
				place(f.path, f.data)
				p.feat("unchanged")
				break
			}
			a, b := int64(0), nb
			switch rel {
			case "prefix":
				b = r.Range64(1, nb-1)
			case "suffix":
				a = r.Range64(1, nb-1)
				b = nb
			default:
				a = r.Range64(0, nb-1)
				b = r.Range64(a+1, nb)
			}
			end := b * BS
			if rel == "suffix" {
				end = int64(len(f.data))
			}
			np := f.path
			if r.Bool() {
				np = g.newName(p.New, p.Old)
			}
			if place(np, f.data[a*BS:end]) {
				p.feat("blockaligned-" + rel)
			}
		case "grow":
			extra := RandomBytes(r.PickI64([]int64{1, 5, BS - 1, BS, BS + 1, 100000}), r.Uint64())
			if place(f.path, append(append([]byte(nil), f.data...), extra...)) {
				p.feat("grow")
			}
		case "shrink":
			n := int64(len(f.data))
			if n == 0 {
				place(f.path, f.data)
				break
			}
			cut := r.PickI64([]int64{1, 5, BS - 1, BS, BS + 1, n / 2})
			if cut > n {
				cut = n
			}
			if place(f.path, f.data[:n-cut]) {
				p.feat("shrink")
			}
		case "empty":
			if place(f.path, nil) {
				p.feat("becomes-empty")
			}
		case "fromempty":
			// an old empty file at a new name that becomes non-empty
			ep := g.newName(p.Old, p.New)
			p.Old.PutFile(ep, nil)
			d, _ := g.content(g.pickSize())
			place(ep, d)
			place(f.path, f.data)
			p.feat("appears-from-empty")
		case "deleted":
			p.feat("deleted")
		case "swap":
			j := -1
			for k := i + 1; k < len(olds); k++ {
				if !used[k] {
					j = k
					break
				}
			}
			if j < 0 {
				place(f.path, f.data)
				break
			}
			used[j] = true
			place(f.path, olds[j].data)
			place(olds[j].path, f.data)
			p.feat("swap")
		case "dupclobber":
			// A is kept AND duplicated onto the path of old B, while old B is renamed to a new path C
			j := -1
			for k := i + 1; k < len(olds); k++ {
				if !used[k] {
					j = k
					break
				}
			}
			if j < 0 {
				place(f.path, f.data)
				break
			}
			used[j] = true
			place(f.path, f.data)
			place(olds[j].path, f.data)
			place(g.newName(p.New, p.Old), olds[j].data)
			p.feat("dup-onto-renamed-path")
		case "chain":
			j := -1
			for k := i + 1; k < len(olds); k++ {
				if !used[k] {
					j = k
					break
				}
			}
			if j < 0 {
				place(f.path, f.data)
				break
			}
			used[j] = true
			// A->B, B->C
			place(olds[j].path, f.data)
			place(g.newName(p.New, p.Old), olds[j].data)
			p.feat("chain")
		case "splice":
			// blocks 0..i of one old file followed by blocks i+1.. of ANOTHER old file: consecutive block
			// indices across two different files
			j := r.Intn(len(olds))
			a, b := f.data, olds[j].data
			na, nb := len(a)/BS, len(b)/BS
			if j == i || na < 1 || nb < 2 {
				place(f.path, f.data)
				break
			}
			k := na
			if nb-1 < k {
				k = nb - 1
			}
			k = r.Range(1, k)
			nd := append(append([]byte(nil), a[:k*BS]...), b[k*BS:]...)
			np := f.path
			if r.Bool() {
				np = g.newName(p.New, p.Old)
			}
			if place(np, nd) {
				p.feat("splice-consecutive-blocks-of-two-files")
			}
		case "concat":
			j := r.Intn(len(olds))
			a, b := f.data, olds[j].data
			na, nb := len(a)/BS, len(b)/BS
			if na == 0 || nb == 0 {
				place(f.path, f.data)
				break
			}
			k := na
			if nb < k {
				k = nb
			}
			k = r.Range(1, k)
			nd := append(append([]byte(nil), a[:k*BS]...), b[:k*BS]...)
			if place(g.newName(p.New, p.Old), nd) {
				p.feat("concat-equal-shares")
			}
		}
	}
	if r.Chance(0.4) {
		d, c := g.content(g.pickSize())
		place(g.newName(p.New, p.Old), d)
		p.feat("brand-new")
		p.feat("content:" + c)
	}
	if o.ManyTiny {
		n := r.Range(300, 400)
		for i := 0; i < n; i++ {
			path := fmt.Sprintf("tiny/t%03d", i)
			d := RandomBytes(int64(r.Intn(41)), r.Uint64())
			p.Old.PutFile(path, d)
			if r.Chance(0.1) {
				d = RandomBytes(int64(r.Intn(41)), r.Uint64())
			}
			if !r.Chance(0.05) {
				p.New.PutFile(path, d)
			}
		}
		p.feat("many-tiny")
	}

	// tree relations
	if r.Chance(0.12) {
		// paths differing only by letter case (legal on a case-sensitive file system)
		d1, _ := g.content(r.Range64(1, 3*BS))
		d2, _ := g.content(r.Range64(1, 3*BS))
		p.Old.PutFile("Case/Twin.bin", d1)
		p.Old.PutFile("Case/twin.bin", d2)
		p.New.PutFile("Case/Twin.bin", d2)
		p.New.PutFile("Case/twin.bin", d1)
		p.feat("case-twins-swapped")
	}
	if r.Chance(0.3) {
		p.Old.PutDir("emptyold")
		p.feat("emptydir-removed")
	}
	if r.Chance(0.3) {
		p.New.PutDir("emptynew/deeper")
		p.feat("emptydir-added")
	}
	if r.Chance(0.2) {
		p.Old.PutDir("emptyboth")
		p.New.PutDir("emptyboth")
		p.feat("emptydir-kept")
	}
	if r.Chance(0.2) {
		d, _ := g.content(r.Range64(0, 3000))
		p.Old.PutFile("gone/x/y.bin", d)
		p.Old.PutFile("gone/z.bin", d)
		p.feat("dir-deleted")
	}
	if !o.NoSymlinks {
		targets := func(b *Build) []string {
			var t []string
			for _, e := range b.Sorted() {
				if e.Kind != KSymlink {
					t = append(t, e.Path)
				}
			}
			return t
		}
		if r.Chance(0.3) {
			if t := targets(p.New); len(t) > 0 {
				p.New.PutSymlink("lnk-added", OddDest(r, r.PickStr(t)))
				p.feat("symlink-added")
			}
		}
		if r.Chance(0.3) {
			if t := targets(p.Old); len(t) > 0 {
				p.Old.PutSymlink("lnk-removed", OddDest(r, r.PickStr(t)))
				p.feat("symlink-removed")
			}
		}
		if r.Chance(0.3) {
			to, tn := targets(p.Old), targets(p.New)
			if len(to) > 0 && len(tn) > 0 {
				p.Old.PutSymlink("lnk-retarget", r.PickStr(to))
				p.New.PutSymlink("lnk-retarget", "nowhere/"+r.PickStr(tn))
				p.feat("symlink-retargeted+dangling")
			}
		}
		if r.Chance(0.2) {
			d := OddDest(r, "a")
			p.Old.PutSymlink("lnk-same", d)
			p.New.PutSymlink("lnk-same", d)
			p.feat("symlink-kept")
		}
		if r.Chance(0.25) {
			// the destination changes only in SPELLING between the builds (the string is what a build records)
			if t := targets(p.New); len(t) > 0 {
				a := r.PickStr(t)
				b := []string{"./" + a, "x/../" + a, a + "/.", "sub/../" + a}[r.Intn(4)]
				if r.Bool() {
					a, b = b, a
				}
				p.Old.PutSymlink("lnk-respelled", a)
				p.New.PutSymlink("lnk-respelled", b)
				p.feat("symlink-respelled")
			}
		}
	}
	if o.EmptyOld {
		p.Old = NewBuild()
		p.Edits = map[string]EditInfo{}
		p.feat("old-build-empty")
	}
	if o.EmptyNew {
		p.New = NewBuild()
		p.Edits = map[string]EditInfo{}
		p.feat("new-build-empty")
	}
	if o.ForceKindSwap > 0 {
		g.kindSwapN(o.ForceKindSwap-1, o.ForceRename)
	} else if o.KindSwaps && r.Chance(0.6) {
		g.kindSwapN(r.Intn(11), r.Chance(0.4))
	}
	return p
}

// kindSwap adds one of the kind-swap relations of DESIGN §4.1.
func (g *genState) kindSwapN(which int, withRename bool) {
	r, p := g.r, g.p
	small := func() []byte { return RandomBytes(r.Range64(1, 5000), r.Uint64()) }
	switch which {
	case 0: // file -> dir
		d := small()
		p.Old.PutFile("ks/f2d", d)
		p.New.PutFile("ks/f2d/child.bin", small())
		p.feat("kind:file->dir")
		if withRename {
			p.New.PutFile("ks/f2d-moved.bin", d)
			p.feat("kind:file->dir+renamesrc")
		}
	case 1: // dir -> file (non-empty dir)
		d := small()
		p.Old.PutFile("ks/d2f/inner.bin", d)
		p.New.PutFile("ks/d2f", small())
		p.feat("kind:dir->file")
		if withRename {
			p.New.PutFile("ks/d2f-inner-moved.bin", d)
			p.feat("kind:dir->file+renamesrc")
		}
	case 2: // empty dir -> file
		p.Old.PutDir("ks/ed2f")
		p.New.PutFile("ks/ed2f", small())
		p.feat("kind:emptydir->file")
	case 3: // file -> symlink
		d := small()
		p.Old.PutFile("ks/f2s", d)
		p.New.PutSymlink("ks/f2s", "elsewhere")
		p.feat("kind:file->symlink")
		if withRename {
			p.New.PutFile("ks/f2s-moved.bin", d)
			p.feat("kind:file->symlink+renamesrc")
		}
	case 4: // symlink -> file
		p.Old.PutSymlink("ks/s2f", "elsewhere")
		p.New.PutFile("ks/s2f", small())
		p.feat("kind:symlink->file")
	case 5: // dir -> symlink to sibling dir with equal child names
		d1, d2 := small(), small()
		p.Old.PutFile("ks/d2s/c.bin", d1)
		p.Old.PutFile("ks/sib/c.bin", d2)
		p.New.PutFile("ks/sib/c.bin", d2)
		p.New.PutSymlink("ks/d2s", "sib")
		p.feat("kind:dir->symlink")
		if withRename {
			p.New.PutFile("ks/d2s-c-moved.bin", d1)
			p.feat("kind:dir->symlink+renamesrc")
		}
	case 7: // symlink -> regular file that is a COPY of the old file the link pointed to (which stays)
		d := small()
		p.Old.PutFile("ks/s2fc-target.bin", d)
		p.New.PutFile("ks/s2fc-target.bin", d)
		p.Old.PutSymlink("ks/s2fc", "s2fc-target.bin")
		p.New.PutFile("ks/s2fc", d)
		p.feat("kind:symlink->file(copy-of-its-target)")
	case 8: // dangling symlink -> regular file that is a copy of some old file
		d := small()
		p.Old.PutFile("ks/s2fd-src.bin", d)
		p.New.PutFile("ks/s2fd-src.bin", d)
		p.Old.PutSymlink("ks/s2fd", "elsewhere")
		p.New.PutFile("ks/s2fd", d)
		p.feat("kind:symlink->file(copy-of-old-file)")
	case 9: // symlink to an EXISTING directory -> real directory with files (the link's target stays)
		d1, d2 := small(), small()
		p.Old.PutFile("ks/live-target/data.bin", d1)
		p.New.PutFile("ks/live-target/data.bin", d1)
		p.Old.PutSymlink("ks/s2d-live", "live-target")
		p.New.PutFile("ks/s2d-live/data.bin", d2)
		p.New.PutFile("ks/s2d-live/extra.txt", small())
		p.feat("kind:symlink(to-existing-dir)->dir")
	default: // symlink -> dir
		p.Old.PutSymlink("ks/s2d", "elsewhere")
		p.New.PutFile("ks/s2d/c.bin", small())
		p.feat("kind:symlink->dir")
	}
}

// OddDest spells a symlink destination in a way that is legal but not in its shortest form (half of the time):
// wharf has to carry destinations verbatim.
func OddDest(r *Rng, target string) string {
	switch r.Intn(14) {
	case 0:
		return "./" + target
	case 1:
		return "x/../" + target
	case 2:
		return target + "/."
	case 3:
		return "sub//" + target
	case 4:
		return "../" + target
	case 5:
		return "/nonexistent/verif/" + target
	case 6:
		return "."
	case 7:
		return " spaced  name/" + target + " "
	case 8:
		return "d\u00e9j\u00e0/" + target
	}
	return target
}
