package lib

import (
	"fmt"
	"io"
	"runtime"
	"sync"
	"time"

	"github.com/itchio/lake"
)

// ShortReadPool wraps a pool so that every Read returns a PRNG-chosen short
// length (>= 1 byte) and optionally yields / spins / sleeps afterwards.
type ShortReadPool struct {
	Inner lake.Pool
	Rng   *Rng
	Yield bool // perturb scheduling after reads
	// EOFWithData makes plain readers (GetReader) return the last bytes of a file TOGETHER with io.EOF,
	// which io.Reader allows and readers such as zip entries do.
	EOFWithData bool
	mu          sync.Mutex
	Reads       int64
}

func (p *ShortReadPool) GetSize(i int64) int64 { return p.Inner.GetSize(i) }
func (p *ShortReadPool) Close() error          { return p.Inner.Close() }
func (p *ShortReadPool) GetReader(i int64) (io.Reader, error) {
	r, err := p.Inner.GetReader(i)
	if err != nil {
		return nil, err
	}
	if p.EOFWithData {
		return &shortReader{p: p, r: &eofWithData{r: r}}, nil
	}
	return &shortReader{p: p, r: r}, nil
}

// eofWithData keeps one byte of look-ahead so that it knows when it hands out the last bytes.
type eofWithData struct {
	r     io.Reader
	ahead []byte
	done  bool
}

func (e *eofWithData) Read(b []byte) (int, error) {
	if e.done {
		return 0, io.EOF
	}
	if len(b) == 0 {
		return 0, nil
	}
	n := copy(b, e.ahead)
	e.ahead = e.ahead[n:]
	for n < len(b) {
		m, err := e.r.Read(b[n:])
		n += m
		if err == io.EOF {
			e.done = true
			if n == 0 {
				return 0, io.EOF
			}
			return n, io.EOF
		}
		if err != nil {
			return n, err
		}
		if m > 0 {
			break
		}
	}
	if len(e.ahead) == 0 {
		var one [1]byte
		for {
			m, err := e.r.Read(one[:])
			if m == 1 {
				e.ahead = []byte{one[0]}
				break
			}
			if err == io.EOF {
				e.done = true
				return n, io.EOF
			}
			if err != nil {
				return n, err
			}
		}
	}
	return n, nil
}
func (p *ShortReadPool) GetReadSeeker(i int64) (io.ReadSeeker, error) {
	r, err := p.Inner.GetReadSeeker(i)
	if err != nil {
		return nil, err
	}
	return &shortReader{p: p, r: r, s: r}, nil
}

type shortReader struct {
	p *ShortReadPool
	r io.Reader
	s io.Seeker
}

func (s *shortReader) Seek(off int64, wh int) (int64, error) { return s.s.Seek(off, wh) }
func (s *shortReader) Read(b []byte) (int, error) {
	if len(b) == 0 {
		return s.r.Read(b)
	}
	s.p.mu.Lock()
	n := len(b)
	var act int
	switch s.p.Rng.Intn(6) {
	case 0:
		n = 1
	case 1:
		n = 1 + s.p.Rng.Intn(n)
	case 2:
		if n > 16384 {
			n = 16384 - s.p.Rng.Intn(3)
		}
	case 3:
		if n > 4096 {
			n = 1 + s.p.Rng.Intn(4096)
		}
	}
	if s.p.Yield {
		act = s.p.Rng.Intn(12)
	}
	s.p.Reads++
	s.p.mu.Unlock()
	switch act {
	case 1, 2:
		runtime.Gosched()
	case 3:
		t := time.Now()
		for time.Since(t) < 20*time.Microsecond {
		}
	case 4:
		time.Sleep(100 * time.Microsecond)
	}
	return s.r.Read(b[:n])
}

// PoolAccess is one recorded access.
type PoolAccess struct {
	File int64
	What string // size | reader | readseeker
}

// RecordingPool logs every access to the old-build pool.
type RecordingPool struct {
	Inner lake.Pool
	mu    sync.Mutex
	Log   []PoolAccess
}

func (p *RecordingPool) rec(i int64, w string) {
	p.mu.Lock()
	p.Log = append(p.Log, PoolAccess{i, w})
	p.mu.Unlock()
}
func (p *RecordingPool) GetSize(i int64) int64 { p.rec(i, "size"); return p.Inner.GetSize(i) }
func (p *RecordingPool) Close() error          { return p.Inner.Close() }
func (p *RecordingPool) GetReader(i int64) (io.Reader, error) {
	p.rec(i, "reader")
	return p.Inner.GetReader(i)
}
func (p *RecordingPool) GetReadSeeker(i int64) (io.ReadSeeker, error) {
	p.rec(i, "readseeker")
	return p.Inner.GetReadSeeker(i)
}

// FaultPool fails the N-th Read (counted over all readers) with an I/O error.
type FaultPool struct {
	Inner  lake.Pool
	FailAt int64 // 1-based; 0 = never
	mu     sync.Mutex
	Reads  int64
}

var ErrInjected = fmt.Errorf("verif: injected I/O error")

func (p *FaultPool) GetSize(i int64) int64 { return p.Inner.GetSize(i) }
func (p *FaultPool) Close() error          { return p.Inner.Close() }
func (p *FaultPool) GetReader(i int64) (io.Reader, error) {
	r, err := p.Inner.GetReadSeeker(i)
	if err != nil {
		return nil, err
	}
	if _, err := r.Seek(0, io.SeekStart); err != nil {
		return nil, err
	}
	return &faultReader{p, r}, nil
}
func (p *FaultPool) GetReadSeeker(i int64) (io.ReadSeeker, error) {
	r, err := p.Inner.GetReadSeeker(i)
	if err != nil {
		return nil, err
	}
	return &faultReader{p, r}, nil
}

type faultReader struct {
	p *FaultPool
	r io.ReadSeeker
}

func (f *faultReader) Seek(o int64, w int) (int64, error) { return f.r.Seek(o, w) }
func (f *faultReader) Read(b []byte) (int, error) {
	f.p.mu.Lock()
	f.p.Reads++
	n := f.p.Reads
	f.p.mu.Unlock()
	if f.p.FailAt > 0 && n >= f.p.FailAt {
		return 0, ErrInjected
	}
	return f.r.Read(b)
}

// StalePool emulates what a caching pool (lake's fspool keeps ONE open reader and hands it out again, at whatever
// position it was left, when the same file is asked for twice in a row) may legally do: when GetReadSeeker is called
// for the file that was handed out last, the reader is first moved to a PRNG-chosen position (end of file, middle,
// 1, random). GetReader keeps starting at 0, as fspool's does. Consumers of GetReadSeeker have to seek themselves.
type StalePool struct {
	Inner lake.Pool
	Rng   *Rng
	mu    sync.Mutex
	last  int64
	has   bool
	Moved int64
}

func (p *StalePool) GetSize(i int64) int64 { return p.Inner.GetSize(i) }
func (p *StalePool) Close() error {
	p.mu.Lock()
	p.has = false
	p.mu.Unlock()
	return p.Inner.Close()
}
func (p *StalePool) GetReader(i int64) (io.Reader, error) {
	p.mu.Lock()
	p.last, p.has = i, true
	p.mu.Unlock()
	return p.Inner.GetReader(i)
}
func (p *StalePool) GetReadSeeker(i int64) (io.ReadSeeker, error) {
	rs, err := p.Inner.GetReadSeeker(i)
	if err != nil {
		return nil, err
	}
	p.mu.Lock()
	defer p.mu.Unlock()
	if p.has && p.last == i {
		size := p.Inner.GetSize(i)
		var off int64
		switch p.Rng.Intn(4) {
		case 0:
			off = size
		case 1:
			off = size / 2
		case 2:
			off = 1
		default:
			off = p.Rng.Range64(0, size)
		}
		if off > size {
			off = size
		}
		if _, err := rs.Seek(off, io.SeekStart); err != nil {
			return nil, err
		}
		p.Moved++
	}
	p.last, p.has = i, true
	return rs, nil
}

// TargetPoolWrap, when set, wraps the old-build pool that ApplyFresh / OverlayApply hand to the patcher and both
// pools of the optimizer (set per case by a property, like StoredOldSig).
var TargetPoolWrap PoolWrap
