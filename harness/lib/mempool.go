package lib

import (
	"bytes"
	"fmt"
	"io"
)

// MemPool is a lake.Pool over in-memory files.
type MemPool struct {
	Files [][]byte
	// Cache makes the pool behave like lake's fspool: ONE reader is kept and handed out again - where it was left -
	// when the same file is asked for twice in a row (GetReader rewinds it, GetReadSeeker does not)
	Cache  bool
	last   int64
	reader *bytes.Reader
}

func (m *MemPool) GetSize(i int64) int64 {
	return int64(len(m.Files[i]))
}
func (m *MemPool) GetReader(i int64) (io.Reader, error) {
	rs, err := m.GetReadSeeker(i)
	if err != nil {
		return nil, err
	}
	if _, err := rs.Seek(0, io.SeekStart); err != nil {
		return nil, err
	}
	return rs, nil
}
func (m *MemPool) GetReadSeeker(i int64) (io.ReadSeeker, error) {
	if i < 0 || i >= int64(len(m.Files)) {
		return nil, fmt.Errorf("mempool: no file %d", i)
	}
	if !m.Cache {
		return bytes.NewReader(m.Files[i]), nil
	}
	if m.reader == nil || m.last != i {
		m.reader, m.last = bytes.NewReader(m.Files[i]), i
	}
	return m.reader, nil
}
func (m *MemPool) Close() error {
	m.reader = nil
	return nil
}
