package lib

import (
	"bytes"
	"fmt"
	"io"
)

// MemPool is a lake.Pool over in-memory files.
type MemPool struct {
	Files [][]byte
}

func (m *MemPool) GetSize(i int64) int64 {
	return int64(len(m.Files[i]))
}
func (m *MemPool) GetReader(i int64) (io.Reader, error) { return m.GetReadSeeker(i) }
func (m *MemPool) GetReadSeeker(i int64) (io.ReadSeeker, error) {
	if i < 0 || i >= int64(len(m.Files)) {
		return nil, fmt.Errorf("mempool: no file %d", i)
	}
	return bytes.NewReader(m.Files[i]), nil
}
func (m *MemPool) Close() error { return nil }
