package lib

import (
	"crypto/md5"
)

// Reference implementations written from the specification (DESIGN §4.4).

// RefBlockHash is one reference block signature.
type RefBlockHash struct {
	FileIndex, BlockIndex int64
	Weak                  uint32
	Strong                []byte
	ShortSize             int32 // 0 for a full block
}

// RefWeak is the rsync weak hash: a = Σx_i mod 2^16, b = Σ(l-i)·x_i mod 2^16, β = a + 2^16·b.
func RefWeak(block []byte) uint32 {
	var a, b uint64
	l := uint64(len(block))
	for i, x := range block {
		a += uint64(x)
		b += (l - uint64(i)) * uint64(x)
	}
	return uint32(a%65536) + 65536*uint32(b%65536)
}

// RefSignature computes the reference signature of a list of file contents (container order):
// one hash per block of bs bytes, a shorter final block, one hash (of the empty string) for an empty file.
func RefSignature(files [][]byte, bs int) []RefBlockHash {
	var out []RefBlockHash
	for fi, data := range files {
		if len(data) == 0 {
			s := md5.Sum(nil)
			out = append(out, RefBlockHash{FileIndex: int64(fi), Weak: RefWeak(nil), Strong: s[:]})
			continue
		}
		for bi := 0; bi*bs < len(data); bi++ {
			end := (bi + 1) * bs
			short := int32(0)
			if end > len(data) {
				end = len(data)
				short = int32(end - bi*bs)
			}
			blk := data[bi*bs : end]
			s := md5.Sum(blk)
			out = append(out, RefBlockHash{FileIndex: int64(fi), BlockIndex: int64(bi), Weak: RefWeak(blk), Strong: s[:], ShortSize: short})
		}
	}
	return out
}
