package lib

import (
	"bufio"
	"encoding/json"
	"fmt"
	"os"
	"os/exec"
	"path/filepath"
	"regexp"
	"runtime"
	"sort"
	"strings"
	"sync"
	"syscall"
	"time"
)

// Case is one unit of work. Spec is property specific and must be enough to
// regenerate the whole case (generator parameters, never bulk data).
type Case struct {
	ID   int             `json:"id"`
	Seed uint64          `json:"seed"`
	Kind string          `json:"kind"`
	Spec json.RawMessage `json:"spec,omitempty"`
}

// Violation is one refuting observation, with its classifier key.
type Violation struct {
	Key    string   `json:"key"`
	Detail []string `json:"detail,omitempty"`
}

// Result is what a monitor reports for one case.
type Result struct {
	Case       int                 `json:"case"`
	Verdict    string              `json:"verdict"` // held | violated | inconclusive | ood
	Violations []Violation         `json:"violations,omitempty"`
	Note       string              `json:"note,omitempty"`
	Feat       []string            `json:"feat,omitempty"` // distinct-case signatures contributed by this case
	NonTrivial bool                `json:"nontrivial"`
	Obs        map[string]int64    `json:"obs,omitempty"`  // counters (summed over the run)
	Sets       map[string][]string `json:"sets,omitempty"` // observation sets (unioned over the run)
	Sample     interface{}         `json:"sample,omitempty"`
	WallMs     int64               `json:"wall_ms"`
}

func (r *Result) Violate(key string, detail ...string) {
	r.Violations = append(r.Violations, Violation{Key: key, Detail: detail})
	r.Verdict = "violated"
}
func (r *Result) Add(k string, n int64) {
	if r.Obs == nil {
		r.Obs = map[string]int64{}
	}
	r.Obs[k] += n
}
func (r *Result) Max(k string, n int64) {
	if r.Obs == nil {
		r.Obs = map[string]int64{}
	}
	if n > r.Obs["max:"+k] {
		r.Obs["max:"+k] = n
	}
}
func (r *Result) SetAdd(k, v string) {
	if r.Sets == nil {
		r.Sets = map[string][]string{}
	}
	r.Sets[k] = append(r.Sets[k], v)
}
func (r *Result) Inconclusive(note string) {
	if r.Verdict != "violated" {
		r.Verdict = "inconclusive"
	}
	r.Note = note
}

// Env is what a case gets from the child process.
type Env struct {
	Scratch string // per-case scratch directory (removed afterwards)
	Flavor  string
	Tier    string
	Replay  bool
}

// Property describes one check.
type Property struct {
	ID          string
	Level       string
	Rule        string
	Assumptions []string
	Flavors     func(tier string) []string
	Cases       func(tier string, seed uint64, flavor string) []Case
	Run         func(c Case, env *Env) Result
	Batch       int           // cases per child (default 50)
	CaseBudget  time.Duration // watchdog budget per case (default 120s)
	// RaceDeciding: race reports with wharf frames are violations (C15, C19).
	RaceDeciding bool
	// RaceFilter returns true if the report (text) belongs to the pipelines the property names.
	RaceFilter func(report string) bool
	// Post may inspect all results and add run-level requirements (minimum event counts).
	Post func(rs []Result, ev *Evidence) (inconclusive []string)
	// ChildEnv is added to the environment of every child process.
	ChildEnv []string
	// Exhaustive marks the evidence as a complete enumeration of a finite space, with explanation.
	Exhaustive func(tier string) (bool, string)
}

var registry = map[string]*Property{}

func Register(p *Property)       { registry[p.ID] = p }
func Lookup(id string) *Property { return registry[id] }
func AllIDs() []string {
	var ids []string
	for id := range registry {
		ids = append(ids, id)
	}
	sort.Strings(ids)
	return ids
}

// Spec helpers.
func MustSpec(v interface{}) json.RawMessage {
	b, err := json.Marshal(v)
	if err != nil {
		panic(err)
	}
	return b
}
func ReadSpec(c Case, v interface{}) {
	if err := json.Unmarshal(c.Spec, v); err != nil {
		panic(fmt.Sprintf("bad spec for case %d: %v", c.ID, err))
	}
}

// ---------------------------------------------------------------- child side

type logLine struct {
	Start  *int    `json:"start,omitempty"`
	Result *Result `json:"result,omitempty"`
}

// ChildMain runs cases [from,to) of casesFile and appends JSONL to outFile.
func ChildMain(id, casesFile string, from, to int, outFile, flavor, tier string, replay bool) int {
	p := Lookup(id)
	if p == nil {
		fmt.Fprintln(os.Stderr, "unknown property", id)
		return 3
	}
	var cases []Case
	b, err := os.ReadFile(casesFile)
	if err != nil {
		fmt.Fprintln(os.Stderr, err)
		return 3
	}
	if err := json.Unmarshal(b, &cases); err != nil {
		fmt.Fprintln(os.Stderr, err)
		return 3
	}
	out, err := os.OpenFile(outFile, os.O_CREATE|os.O_WRONLY|os.O_APPEND, 0o644)
	if err != nil {
		fmt.Fprintln(os.Stderr, err)
		return 3
	}
	defer out.Close()
	write := func(l logLine) {
		jb, _ := json.Marshal(l)
		out.Write(append(jb, '\n'))
	}
	for i := from; i < to && i < len(cases); i++ {
		c := cases[i]
		idx := i
		write(logLine{Start: &idx})
		scratch, err := Scratch(id)
		if err != nil {
			fmt.Fprintln(os.Stderr, "scratch:", err)
			return 3
		}
		fmt.Fprintf(os.Stderr, "== case %d (id %d kind %s seed %d)\n", i, c.ID, c.Kind, c.Seed)
		t0 := time.Now()
		res := p.Run(c, &Env{Scratch: scratch, Flavor: flavor, Tier: tier, Replay: replay})
		res.Case = i
		res.WallMs = time.Since(t0).Milliseconds()
		if res.Verdict == "" {
			res.Verdict = "held"
		}
		os.RemoveAll(scratch)
		write(logLine{Result: &res})
	}
	return 0
}

// ---------------------------------------------------------------- supervisor side

// Evidence mirrors EVIDENCE.schema.json.
type Evidence struct {
	PropertyID  string                 `json:"property_id"`
	Tier        string                 `json:"tier"`
	Seed        int64                  `json:"seed"`
	Level       string                 `json:"level"`
	Coverage    map[string]interface{} `json:"coverage"`
	Assumptions []string               `json:"assumptions"`
	WallS       float64                `json:"wall_s"`
	Violations  int                    `json:"violations"`
}

type KnownFinding struct {
	Property string `json:"property"`
	Key      string `json:"key"`
	Status   string `json:"status"` // open | fixed
	Commit   string `json:"commit,omitempty"`
	What     string `json:"what"`
}

type batch struct {
	from, to int
	solo     bool
}

type SupOpts struct {
	ID        string
	Tier      string
	Seed      uint64
	VerifDir  string            // /verif
	Binaries  map[string]string // flavor -> binary
	Parallel  int
	ReplayOut string
}

type caseOutcome struct {
	res     *Result
	crashed bool
	hung    bool
	stderr  string
}

// Supervise runs the whole check and returns the process exit code.
func Supervise(o SupOpts) int {
	p := Lookup(o.ID)
	if p == nil {
		fmt.Println("unknown property", o.ID)
		return 3
	}
	t0 := time.Now()
	scratch, err := Scratch("sup-" + o.ID)
	if err != nil {
		fmt.Println("INCONCLUSIVE property=" + o.ID + " cannot create scratch: " + err.Error())
		return 2
	}
	defer os.RemoveAll(scratch)
	if o.Parallel <= 0 {
		o.Parallel = runtime.NumCPU()
	}
	known := loadKnown(filepath.Join(o.VerifDir, "known_findings.json"), o.ID)

	flavors := []string{"plain"}
	if p.Flavors != nil {
		flavors = p.Flavors(o.Tier)
	}
	var all []Result
	type viol struct {
		flavor string
		c      Case
		v      Violation
		res    *Result
		stderr string
	}
	var viols []viol
	var inconcl []string
	raceReports := map[string]string{}
	raceTotal := 0
	evals := 0
	for _, fl := range flavors {
		// a flavour may carry environment for its children: "plain:NAME=value"
		bin := o.Binaries[strings.SplitN(fl, ":", 2)[0]]
		if bin == "" {
			inconcl = append(inconcl, "no binary for flavor "+fl)
			continue
		}
		cases := p.Cases(o.Tier, o.Seed, fl)
		for i := range cases {
			cases[i].ID = i
		}
		casesFile := filepath.Join(scratch, "cases-"+strings.NewReplacer(":", "_", "=", "_", ",", "_").Replace(fl)+".json")
		cb, _ := json.Marshal(cases)
		if err := os.WriteFile(casesFile, cb, 0o644); err != nil {
			inconcl = append(inconcl, err.Error())
			continue
		}
		outcomes := runFlavor(p, o, fl, bin, casesFile, cases, scratch)
		for i, oc := range outcomes {
			c := cases[i]
			switch {
			case oc.res != nil:
				evals++
				all = append(all, *oc.res)
				for _, v := range oc.res.Violations {
					viols = append(viols, viol{fl, c, v, oc.res, ""})
				}
				if oc.res.Verdict == "inconclusive" {
					inconcl = append(inconcl, fmt.Sprintf("case %d (%s): %s", i, c.Kind, oc.res.Note))
				}
			case oc.crashed && crashInHarness(oc.stderr):
				// a panic whose first non-runtime frame is harness code is a bug of the check, not an observation
				// about wharf: never a violation, never a pass
				inconcl = append(inconcl, fmt.Sprintf("case %d (%s): the harness itself crashed: %s", i, c.Kind, strings.Join(tailLines(oc.stderr, 6), " | ")))
			case oc.crashed:
				evals++
				key := "crash:" + crashSite(oc.stderr)
				r := &Result{Case: i, Verdict: "violated", Violations: []Violation{{Key: key, Detail: tailLines(oc.stderr, 60)}}}
				all = append(all, *r)
				viols = append(viols, viol{fl, c, r.Violations[0], r, oc.stderr})
			case oc.hung:
				inconcl = append(inconcl, fmt.Sprintf("case %d (%s) exceeded the watchdog", i, c.Kind))
			default:
				inconcl = append(inconcl, fmt.Sprintf("case %d (%s) was never executed", i, c.Kind))
			}
		}
		if fl == "race" {
			reps, total := collectRace(scratch)
			raceTotal += total
			for k, v := range reps {
				raceReports[k] = v
			}
		}
	}

	// evidence
	ev := &Evidence{PropertyID: p.ID, Tier: o.Tier, Seed: int64(o.Seed), Level: p.Level,
		Coverage: map[string]interface{}{}, Assumptions: p.Assumptions}
	distinct := map[string]bool{}
	obs := map[string]int64{}
	sets := map[string]map[string]bool{}
	var samples []interface{}
	extraDistinct := 0
	for i := range all {
		r := &all[i]
		if r.NonTrivial {
			for _, f := range r.Feat {
				distinct[f] = true
			}
		}
		if n, ok := r.Obs["executions"]; ok {
			// a case that enumerates a whole sub-space reports how many executions it monitored
			evals += int(n) - 1
		}
		if n, ok := r.Obs["distinct_nontrivial_executions"]; ok {
			// enumerated tuples are distinct by construction; the monitor counted the non-trivial ones
			extraDistinct += int(n)
		}
		for k, v := range r.Obs {
			if strings.HasPrefix(k, "max:") {
				if v > obs[k] {
					obs[k] = v
				}
			} else {
				obs[k] += v
			}
		}
		for k, vs := range r.Sets {
			if sets[k] == nil {
				sets[k] = map[string]bool{}
			}
			for _, v := range vs {
				sets[k][v] = true
			}
		}
		if r.Sample != nil && len(samples) < 4 {
			samples = append(samples, r.Sample)
		}
	}
	setSizes := map[string]int{}
	for k, s := range sets {
		setSizes["distinct:"+k] = len(s)
	}
	ev.Coverage["evaluations"] = evals
	ev.Coverage["distinct_nontrivial"] = len(distinct) + extraDistinct
	ev.Coverage["distinct_feature_signatures"] = len(distinct)
	ev.Coverage["rule"] = p.Rule
	ev.Coverage["samples"] = samples
	ev.Coverage["observed"] = obs
	ev.Coverage["observed_sets"] = setSizes
	ev.Coverage["flavors"] = flavors
	if p.Exhaustive != nil {
		ex, why := p.Exhaustive(o.Tier)
		ev.Coverage["exhaustive"] = ex
		ev.Coverage["exhaustive_scope"] = why
	}
	if len(raceReports) > 0 || contains(flavors, "race") {
		keys := []string{}
		for k := range raceReports {
			keys = append(keys, k)
		}
		sort.Strings(keys)
		ev.Coverage["race_reports_total"] = raceTotal
		ev.Coverage["race_reports_distinct_in_wharf"] = keys
	}
	if p.Post != nil {
		inconcl = append(inconcl, p.Post(all, ev)...)
	}

	// race verdicts
	if p.RaceDeciding {
		for k, rep := range raceReports {
			if p.RaceFilter == nil || p.RaceFilter(rep) {
				r := &Result{Verdict: "violated", Violations: []Violation{{Key: "race:" + k, Detail: strings.Split(rep, "\n")}}}
				viols = append(viols, viol{"race", Case{Kind: "race-report"}, r.Violations[0], r, rep})
			}
		}
	}

	// fold violations against known findings
	os.MkdirAll(filepath.Join(o.VerifDir, "replays"), 0o755)
	exit := 0
	knownSeen := map[string]int{}
	unknownByKey := map[string][]viol{}
	var unknownOrder []string
	for _, v := range viols {
		if kf, ok := known[v.v.Key]; ok && kf.Status == "open" {
			knownSeen[v.v.Key]++
			continue
		}
		if _, ok := unknownByKey[v.v.Key]; !ok {
			unknownOrder = append(unknownOrder, v.v.Key)
		}
		unknownByKey[v.v.Key] = append(unknownByKey[v.v.Key], v)
	}
	var kk []string
	for k := range knownSeen {
		kk = append(kk, k)
	}
	sort.Strings(kk)
	for _, k := range kk {
		what := known[k].What
		if len(what) > 180 {
			what = what[:180] + "... (see known_findings.json)"
		}
		fmt.Printf("KNOWN-FINDING: property=%s key=%s (%d cases) %s\n", o.ID, k, knownSeen[k], what)
	}
	nviol := 0
	for _, k := range unknownOrder {
		vs := unknownByKey[k]
		nviol += len(vs)
		v := vs[0]
		rp := filepath.Join(o.VerifDir, "replays", fmt.Sprintf("%s-%s-%s-s%d-c%d.json", o.ID, o.Tier, strings.NewReplacer(":", "_", "=", "_", ",", "_").Replace(v.flavor), o.Seed, v.c.ID))
		rb, _ := json.MarshalIndent(map[string]interface{}{
			"property": o.ID, "tier": o.Tier, "seed": o.Seed, "flavor": v.flavor,
			"case": v.c, "key": k, "violation": v.v, "same_key_cases": len(vs), "stderr_tail": tailLines(v.stderr, 80),
		}, "", " ")
		os.WriteFile(rp, rb, 0o644)
		fmt.Printf("VIOLATION property=%s replay=%s key=%s cases=%d\n", o.ID, rp, k, len(vs))
		for i, d := range v.v.Detail {
			if i >= 12 {
				break
			}
			fmt.Printf("    %s\n", d)
		}
		exit = 1
	}
	ev.Violations = nviol
	ev.Coverage["known_findings_observed"] = knownSeen
	ev.Coverage["inconclusive"] = len(inconcl)
	ev.WallS = time.Since(t0).Seconds()
	eb, _ := json.MarshalIndent(ev, "", " ")
	os.MkdirAll(filepath.Join(o.VerifDir, "evidence"), 0o755)
	if err := os.WriteFile(filepath.Join(o.VerifDir, "evidence", o.ID+".json"), eb, 0o644); err != nil {
		fmt.Println("cannot write evidence:", err)
	}
	if exit == 0 && len(inconcl) > 0 {
		for i, s := range inconcl {
			if i >= 10 {
				break
			}
			fmt.Printf("INCONCLUSIVE property=%s %s\n", o.ID, s)
		}
		exit = 2
	}
	fmt.Printf("property=%s tier=%s seed=%d evaluations=%d distinct_nontrivial=%d violations=%d known=%d inconclusive=%d wall=%.1fs exit=%d\n",
		o.ID, o.Tier, o.Seed, evals, len(distinct)+extraDistinct, nviol, len(knownSeen), len(inconcl), ev.WallS, exit)
	return exit
}

func contains(xs []string, x string) bool {
	for _, y := range xs {
		if x == y {
			return true
		}
	}
	return false
}

func loadKnown(path, id string) map[string]KnownFinding {
	out := map[string]KnownFinding{}
	b, err := os.ReadFile(path)
	if err != nil {
		return out
	}
	var f struct {
		Findings []KnownFinding `json:"findings"`
	}
	if json.Unmarshal(b, &f) != nil {
		return out
	}
	for _, k := range f.Findings {
		if k.Property == id {
			out[k.Key] = k
		}
	}
	return out
}

func runFlavor(p *Property, o SupOpts, fl, bin, casesFile string, cases []Case, scratch string) []caseOutcome {
	outcomes := make([]caseOutcome, len(cases))
	bs := p.Batch
	if bs <= 0 {
		bs = 50
	}
	// make sure all workers have something to do
	if n := (len(cases) + o.Parallel - 1) / o.Parallel; n < bs && n > 0 {
		bs = n
	}
	budget := p.CaseBudget
	if budget == 0 {
		budget = 120 * time.Second
	}
	var mu sync.Mutex
	var queue []batch
	for i := 0; i < len(cases); i += bs {
		e := i + bs
		if e > len(cases) {
			e = len(cases)
		}
		queue = append(queue, batch{from: i, to: e})
	}
	var soloQueue []batch // undecided cases re-run alone at the end
	retried := map[int]bool{}
	seq := 0
	runBatch := func(b batch, wd time.Duration) {
		mu.Lock()
		seq++
		n := seq
		mu.Unlock()
		tag := strings.NewReplacer(":", "_", "=", "_", ",", "_").Replace(fl)
		outFile := filepath.Join(scratch, fmt.Sprintf("out-%s-%d.jsonl", tag, n))
		errFile := filepath.Join(scratch, fmt.Sprintf("err-%s-%d.txt", tag, n))
		ef, _ := os.Create(errFile)
		cmd := exec.Command(bin, "child", p.ID, casesFile, fmt.Sprint(b.from), fmt.Sprint(b.to), outFile, fl, o.Tier)
		cmd.Stdout = ef
		cmd.Stderr = ef
		// children keep their per-case scratch under the supervisor's directory: whatever a dying child
		// leaves behind goes away with it
		work := filepath.Join(scratch, "work")
		os.MkdirAll(work, 0o755)
		cmd.Env = append(os.Environ(), "GOTRACEBACK=all", "VERIF_SCRATCH="+work)
		cmd.Env = append(cmd.Env, p.ChildEnv...)
		if parts := strings.SplitN(fl, ":", 2); len(parts) == 2 {
			cmd.Env = append(cmd.Env, strings.Split(parts[1], ",")...)
		}
		if strings.HasPrefix(fl, "race") {
			cmd.Env = append(cmd.Env, "GORACE=halt_on_error=0 log_path="+filepath.Join(scratch, fmt.Sprintf("race-%d", n)))
		}
		cmd.SysProcAttr = &syscall.SysProcAttr{Setpgid: true}
		if err := cmd.Start(); err != nil {
			ef.Close()
			return
		}
		done := make(chan error, 1)
		go func() { done <- cmd.Wait() }()
		timedOut := false
		select {
		case <-done:
		case <-time.After(wd):
			timedOut = true
			cmd.Process.Signal(syscall.SIGQUIT)
			select {
			case <-done:
			case <-time.After(20 * time.Second):
				syscall.Kill(-cmd.Process.Pid, syscall.SIGKILL)
				<-done
			}
		}
		ef.Close()
		// parse
		started := -1
		finished := map[int]*Result{}
		if f, err := os.Open(outFile); err == nil {
			sc := bufio.NewScanner(f)
			sc.Buffer(make([]byte, 1<<20), 64<<20)
			for sc.Scan() {
				var l logLine
				if json.Unmarshal(sc.Bytes(), &l) != nil {
					continue
				}
				if l.Start != nil {
					started = *l.Start
				}
				if l.Result != nil {
					r := l.Result
					finished[r.Case] = r
				}
			}
			f.Close()
		}
		eb, _ := os.ReadFile(errFile)
		mu.Lock()
		defer mu.Unlock()
		for i, r := range finished {
			outcomes[i] = caseOutcome{res: r}
		}
		if started >= 0 && finished[started] == nil {
			// the child died or was killed inside this case
			if timedOut {
				if !retried[started] {
					retried[started] = true
					soloQueue = append(soloQueue, batch{from: started, to: started + 1, solo: true})
				} else {
					outcomes[started] = caseOutcome{hung: true, stderr: string(eb)}
				}
			} else {
				outcomes[started] = caseOutcome{crashed: true, stderr: string(eb)}
			}
			if started+1 < b.to {
				queue = append(queue, batch{from: started + 1, to: b.to})
			}
		} else if started < b.to-1 {
			// child exited early without starting everything
			next := started + 1
			if next < b.from {
				next = b.from
			}
			if !timedOut && len(finished) == 0 && started < 0 {
				// could not even start: give up on this batch (outcomes stay empty → inconclusive)
				fmt.Fprintf(os.Stderr, "child for batch %d-%d produced nothing: %s\n", b.from, b.to, string(tailBytes(eb, 2000)))
			} else if next < b.to {
				queue = append(queue, batch{from: next, to: b.to})
			}
		}
	}
	work := func() {
		for {
			mu.Lock()
			if len(queue) == 0 {
				mu.Unlock()
				return
			}
			b := queue[0]
			queue = queue[1:]
			mu.Unlock()
			runBatch(b, time.Duration(b.to-b.from)*budget+60*time.Second)
		}
	}
	for len(queue) > 0 {
		var wg sync.WaitGroup
		for i := 0; i < o.Parallel; i++ {
			wg.Add(1)
			go func() { defer wg.Done(); work() }()
		}
		wg.Wait()
	}
	// undecided cases: alone, no load, doubled watchdog
	for len(soloQueue) > 0 {
		b := soloQueue[0]
		soloQueue = soloQueue[1:]
		runBatch(b, 2*budget+60*time.Second)
	}
	return outcomes
}

func tailBytes(b []byte, n int) []byte {
	if len(b) > n {
		return b[len(b)-n:]
	}
	return b
}

func tailLines(s string, n int) []string {
	if s == "" {
		return nil
	}
	ls := strings.Split(strings.TrimRight(s, "\n"), "\n")
	// keep the head of the panic if we can find it
	for i, l := range ls {
		if strings.HasPrefix(l, "panic:") || strings.HasPrefix(l, "fatal error:") || strings.Contains(l, "ERROR: AddressSanitizer") {
			if len(ls)-i > n {
				return ls[i : i+n]
			}
			return ls[i:]
		}
	}
	if len(ls) > n {
		ls = ls[len(ls)-n:]
	}
	return ls
}

var frameRe = regexp.MustCompile(`^(github\.com/itchio/[^\s(]+|github\.com/jgallagher/[^\s(]+)`)

// crashSite extracts "reason @ first wharf-side frame" from a goroutine dump.
func crashSite(stderr string) string {
	ls := strings.Split(stderr, "\n")
	reason := "unknown"
	start := -1
	for i, l := range ls {
		if strings.HasPrefix(l, "panic:") || strings.HasPrefix(l, "fatal error:") {
			reason = l
			start = i
			break
		}
		if strings.Contains(l, "ERROR: AddressSanitizer") {
			reason = "asan"
			start = i
			break
		}
	}
	reason = regexp.MustCompile(`0x[0-9a-f]+|\[\S*\d+\S*\]|\d+`).ReplaceAllString(reason, "N")
	if len(reason) > 80 {
		reason = reason[:80]
	}
	if start < 0 {
		return reason
	}
	for _, l := range ls[start:] {
		l = strings.TrimSpace(l)
		if m := frameRe.FindString(l); m != "" && strings.Contains(m, "wharf") {
			m = strings.TrimPrefix(m, "github.com/itchio/wharf/")
			return reason + " @ " + m
		}
	}
	return reason
}

// crashInHarness says whether the panicking goroutine's first non-runtime frame belongs to the harness.
func crashInHarness(stderr string) bool {
	ls := strings.Split(stderr, "\n")
	start := -1
	for i, l := range ls {
		if strings.HasPrefix(l, "panic:") || strings.HasPrefix(l, "fatal error:") {
			start = i
			break
		}
	}
	if start < 0 {
		return false
	}
	inG := false
	for _, l := range ls[start:] {
		if strings.HasPrefix(l, "goroutine ") {
			if inG {
				return false // only the first (panicking) goroutine counts
			}
			inG = true
			continue
		}
		if !inG || strings.HasPrefix(l, "\t") || strings.TrimSpace(l) == "" {
			continue
		}
		if strings.HasPrefix(l, "panic(") || strings.HasPrefix(l, "runtime.") || strings.HasPrefix(l, "runtime/") || strings.HasPrefix(l, "created by") {
			continue
		}
		return strings.HasPrefix(l, "verif/") || strings.HasPrefix(l, "main.")
	}
	return false
}

var raceSplit = regexp.MustCompile(`(?m)^==================\n`)

// collectRace reads all race logs under scratch, returns de-duplicated reports
// that have at least one wharf (non-harness) frame, keyed by the pair of
// function names at the top of the two stacks (line numbers stripped).
func collectRace(scratch string) (map[string]string, int) {
	out := map[string]string{}
	total := 0
	files, _ := filepath.Glob(filepath.Join(scratch, "race-*"))
	for _, f := range files {
		b, err := os.ReadFile(f)
		if err != nil {
			continue
		}
		for _, blk := range raceSplit.Split(string(b), -1) {
			if !strings.Contains(blk, "WARNING: DATA RACE") {
				continue
			}
			total++
			if !strings.Contains(blk, "github.com/itchio/wharf/") {
				continue
			}
			key := raceKey(blk)
			if _, ok := out[key]; !ok {
				out[key] = blk
			}
		}
	}
	return out, total
}

func raceKey(blk string) string {
	// first wharf frame after each "by goroutine" / "at 0x" header
	var tops []string
	ls := strings.Split(blk, "\n")
	inStack := false
	found := false
	for _, l := range ls {
		t := strings.TrimSpace(l)
		if strings.Contains(t, " at 0x") && (strings.HasPrefix(t, "Read") || strings.HasPrefix(t, "Write") || strings.HasPrefix(t, "Previous")) {
			inStack = true
			found = false
			continue
		}
		if t == "" {
			inStack = false
			continue
		}
		if inStack && !found && strings.HasPrefix(t, "github.com/itchio/wharf/") {
			fn := t
			if i := strings.Index(fn, "("); i > 0 {
				fn = fn[:i]
			}
			tops = append(tops, strings.TrimPrefix(fn, "github.com/itchio/wharf/"))
			found = true
		}
	}
	sort.Strings(tops)
	return strings.Join(tops, " <-> ")
}
