package lib

// Independent reader/writer for wharf's wire framing, written against the
// .proto files and the framing rule (int32 LE magic, then uvarint-length
// prefixed protobuf messages; the part after the header message optionally
// compressed). It does not use wire.ReadContext / pwr.DecompressWire:
// gzip is decoded with the standard library, brotli with the C decoder
// (wharf itself decodes brotli with the pure-Go dskompress reader).

import (
	"bytes"
	"compress/gzip"
	"encoding/binary"
	"fmt"
	"io"

	"github.com/golang/protobuf/proto"
	"github.com/itchio/go-brotli/dec"
	"github.com/itchio/go-brotli/enc"
	"github.com/itchio/lake/tlc"
	"github.com/itchio/wharf/bsdiff"
	"github.com/itchio/wharf/pwr"
)

const (
	MagicPatch  = int32(0xFEF5F00)
	MagicSig    = int32(0xFEF5F01)
	MagicWounds = int32(0xFEF5F03)
	MagicOvl    = int32(0xFEF6F00)
)

// rawReader iterates over framed messages of a byte slice.
type rawReader struct {
	b   []byte
	off int
}

func (r *rawReader) next() ([]byte, error) {
	if r.off >= len(r.b) {
		return nil, io.EOF
	}
	l, n := binary.Uvarint(r.b[r.off:])
	if n <= 0 {
		return nil, fmt.Errorf("bad uvarint at %d", r.off)
	}
	start := r.off + n
	if uint64(len(r.b)-start) < l {
		return nil, fmt.Errorf("message at %d declares %d bytes, only %d left", r.off, l, len(r.b)-start)
	}
	r.off = start + int(l)
	return r.b[start:r.off], nil
}

func (r *rawReader) read(m proto.Message) error {
	raw, err := r.next()
	if err != nil {
		return err
	}
	return proto.Unmarshal(raw, m)
}

func decompressBody(body []byte, cs *pwr.CompressionSettings) ([]byte, error) {
	if cs == nil {
		return nil, fmt.Errorf("header without compression settings")
	}
	switch cs.Algorithm {
	case pwr.CompressionAlgorithm_NONE:
		return body, nil
	case pwr.CompressionAlgorithm_GZIP:
		zr, err := gzip.NewReader(bytes.NewReader(body))
		if err != nil {
			return nil, err
		}
		return io.ReadAll(zr)
	case pwr.CompressionAlgorithm_BROTLI:
		br := dec.NewBrotliReader(bytes.NewReader(body))
		defer br.Close()
		return io.ReadAll(br)
	}
	return nil, fmt.Errorf("unknown compression %v", cs.Algorithm)
}

// Series is the decoded series of one new file.
type Series struct {
	Header *pwr.SyncHeader
	BsHdr  *pwr.BsdiffHeader // bsdiff series only
	Ops    []*pwr.SyncOp     // rsync series, without the end marker
	Ctrls  []*bsdiff.Control // bsdiff series, including the Eof control
}

// PatchStream is a fully decoded patch.
type PatchStream struct {
	Header *pwr.PatchHeader
	Old    *tlc.Container
	New    *tlc.Container
	Series []*Series
}

// DecodePatch parses a patch and enforces the framing grammar:
// magic · PatchHeader · container(old) · container(new) ·
// ( SyncHeader{i} · series · HEY_YOU_DID_IT ) for i = 0..n-1 · end of stream.
func DecodePatch(b []byte) (*PatchStream, error) {
	if len(b) < 4 {
		return nil, fmt.Errorf("short stream")
	}
	if m := int32(binary.LittleEndian.Uint32(b)); m != MagicPatch {
		return nil, fmt.Errorf("bad magic %x", m)
	}
	rr := &rawReader{b: b, off: 4}
	ps := &PatchStream{Header: &pwr.PatchHeader{}, Old: &tlc.Container{}, New: &tlc.Container{}}
	if err := rr.read(ps.Header); err != nil {
		return nil, fmt.Errorf("header: %w", err)
	}
	body, err := decompressBody(b[rr.off:], ps.Header.Compression)
	if err != nil {
		return nil, fmt.Errorf("decompress: %w", err)
	}
	rr = &rawReader{b: body}
	if err := rr.read(ps.Old); err != nil {
		return nil, fmt.Errorf("old container: %w", err)
	}
	if err := rr.read(ps.New); err != nil {
		return nil, fmt.Errorf("new container: %w", err)
	}
	for i := range ps.New.Files {
		s := &Series{Header: &pwr.SyncHeader{}}
		if err := rr.read(s.Header); err != nil {
			return nil, fmt.Errorf("sync header %d: %w", i, err)
		}
		if s.Header.FileIndex != int64(i) {
			return nil, fmt.Errorf("sync header %d carries file index %d", i, s.Header.FileIndex)
		}
		switch s.Header.Type {
		case pwr.SyncHeader_RSYNC:
			for {
				op := &pwr.SyncOp{}
				if err := rr.read(op); err != nil {
					return nil, fmt.Errorf("file %d op %d: %w", i, len(s.Ops), err)
				}
				if op.Type == pwr.SyncOp_HEY_YOU_DID_IT {
					break
				}
				if op.Type != pwr.SyncOp_BLOCK_RANGE && op.Type != pwr.SyncOp_DATA {
					return nil, fmt.Errorf("file %d op %d: unknown type %d", i, len(s.Ops), op.Type)
				}
				s.Ops = append(s.Ops, op)
			}
		case pwr.SyncHeader_BSDIFF:
			s.BsHdr = &pwr.BsdiffHeader{}
			if err := rr.read(s.BsHdr); err != nil {
				return nil, fmt.Errorf("file %d bsdiff header: %w", i, err)
			}
			for {
				c := &bsdiff.Control{}
				if err := rr.read(c); err != nil {
					return nil, fmt.Errorf("file %d ctrl %d: %w", i, len(s.Ctrls), err)
				}
				s.Ctrls = append(s.Ctrls, c)
				if c.Eof {
					break
				}
			}
			op := &pwr.SyncOp{}
			if err := rr.read(op); err != nil {
				return nil, fmt.Errorf("file %d sentinel: %w", i, err)
			}
			if op.Type != pwr.SyncOp_HEY_YOU_DID_IT {
				return nil, fmt.Errorf("file %d: expected sentinel after bsdiff series, got %v", i, op.Type)
			}
		default:
			return nil, fmt.Errorf("file %d: unknown series type %d", i, s.Header.Type)
		}
		ps.Series = append(ps.Series, s)
	}
	if rr.off != len(rr.b) {
		return nil, fmt.Errorf("%d trailing bytes after the last series", len(rr.b)-rr.off)
	}
	return ps, nil
}

// Flat returns the body messages of the patch in stream order (containers included).
func (ps *PatchStream) Flat() []proto.Message {
	out := []proto.Message{ps.Old, ps.New}
	for _, s := range ps.Series {
		out = append(out, s.Header)
		if s.BsHdr != nil {
			out = append(out, s.BsHdr)
			for _, c := range s.Ctrls {
				out = append(out, c)
			}
		} else {
			for _, op := range s.Ops {
				out = append(out, op)
			}
		}
		out = append(out, &pwr.SyncOp{Type: pwr.SyncOp_HEY_YOU_DID_IT})
	}
	return out
}

// SigStream is a decoded signature.
type SigStream struct {
	Header    *pwr.SignatureHeader
	Container *tlc.Container
	Hashes    []*pwr.BlockHash
}

// DecodeSig parses a signature stream.
func DecodeSig(b []byte) (*SigStream, error) {
	if len(b) < 4 {
		return nil, fmt.Errorf("short stream")
	}
	if m := int32(binary.LittleEndian.Uint32(b)); m != MagicSig {
		return nil, fmt.Errorf("bad magic %x", m)
	}
	rr := &rawReader{b: b, off: 4}
	ss := &SigStream{Header: &pwr.SignatureHeader{}, Container: &tlc.Container{}}
	if err := rr.read(ss.Header); err != nil {
		return nil, err
	}
	body, err := decompressBody(b[rr.off:], ss.Header.Compression)
	if err != nil {
		return nil, fmt.Errorf("decompress: %w", err)
	}
	rr = &rawReader{b: body}
	if err := rr.read(ss.Container); err != nil {
		return nil, err
	}
	for {
		h := &pwr.BlockHash{}
		err := rr.read(h)
		if err == io.EOF {
			break
		}
		if err != nil {
			return nil, err
		}
		ss.Hashes = append(ss.Hashes, h)
	}
	return ss, nil
}

// DecodeWounds parses a .pww file: magic, WoundsHeader, container, wounds.
func DecodeWounds(b []byte) (*tlc.Container, []*pwr.Wound, error) {
	if len(b) < 4 {
		return nil, nil, fmt.Errorf("short stream")
	}
	if m := int32(binary.LittleEndian.Uint32(b)); m != MagicWounds {
		return nil, nil, fmt.Errorf("bad magic %x", m)
	}
	rr := &rawReader{b: b, off: 4}
	if err := rr.read(&pwr.WoundsHeader{}); err != nil {
		return nil, nil, err
	}
	c := &tlc.Container{}
	if err := rr.read(c); err != nil {
		return nil, nil, err
	}
	var ws []*pwr.Wound
	for {
		w := &pwr.Wound{}
		err := rr.read(w)
		if err == io.EOF {
			break
		}
		if err != nil {
			return c, ws, err
		}
		ws = append(ws, w)
	}
	return c, ws, nil
}

// EncodeStream frames magic + header + body messages, compressing the body per comp.
// Every message carries its true length (C10's input domain).
func EncodeStream(magic int32, header proto.Message, body []proto.Message, comp Comp) ([]byte, error) {
	var out bytes.Buffer
	binary.Write(&out, binary.LittleEndian, magic)
	if err := frame(&out, header); err != nil {
		return nil, err
	}
	var bb bytes.Buffer
	for _, m := range body {
		if err := frame(&bb, m); err != nil {
			return nil, err
		}
	}
	cb, err := CompressBytes(bb.Bytes(), comp)
	if err != nil {
		return nil, err
	}
	out.Write(cb)
	return out.Bytes(), nil
}

// CompressBytes compresses b per comp (none: identity).
func CompressBytes(b []byte, comp Comp) ([]byte, error) {
	switch comp.Algo {
	case "gzip":
		var zb bytes.Buffer
		zw, err := gzip.NewWriterLevel(&zb, comp.Quality)
		if err != nil {
			return nil, err
		}
		zw.Write(b)
		zw.Close()
		return zb.Bytes(), nil
	case "brotli":
		var zb bytes.Buffer
		bw := enc.NewBrotliWriter(&zb, &enc.BrotliWriterOptions{Quality: comp.Quality})
		if _, err := bw.Write(b); err != nil {
			return nil, err
		}
		if err := bw.Close(); err != nil {
			return nil, err
		}
		return zb.Bytes(), nil
	}
	return b, nil
}

func frame(w *bytes.Buffer, m proto.Message) error {
	raw, err := proto.Marshal(m)
	if err != nil {
		return err
	}
	var vb [binary.MaxVarintLen64]byte
	n := binary.PutUvarint(vb[:], uint64(len(raw)))
	w.Write(vb[:n])
	w.Write(raw)
	return nil
}
