package lib

import (
	"fmt"
	"os"
	"path/filepath"
	"syscall"
)

// Damage is one mutation of a directory that holds a copy of a build.
type Damage struct {
	Op   string `json:"op"`
	Path string `json:"path"`
	N    int64  `json:"n,omitempty"`
	S    string `json:"s,omitempty"`
}

func (d Damage) String() string {
	return fmt.Sprintf("%s(%s,%d%s)", d.Op, d.Path, d.N, d.S)
}

// Class is the damage class label (without path / numbers).
func (d Damage) Class() string { return d.Op }

// ApplyDamage performs d inside dir.
func ApplyDamage(dir string, d Damage) error {
	full := filepath.Join(dir, filepath.FromSlash(d.Path))
	switch d.Op {
	case "flip": // flip one bit at offset N
		f, err := os.OpenFile(full, os.O_RDWR, 0)
		if err != nil {
			return err
		}
		defer f.Close()
		var b [1]byte
		if _, err := f.ReadAt(b[:], d.N); err != nil {
			return err
		}
		b[0] ^= 0x10
		_, err = f.WriteAt(b[:], d.N)
		return err
	case "garble": // overwrite len(S as number) bytes from offset N with different bytes
		f, err := os.OpenFile(full, os.O_RDWR, 0)
		if err != nil {
			return err
		}
		defer f.Close()
		var n int64
		fmt.Sscan(d.S, &n)
		buf := make([]byte, n)
		if _, err := f.ReadAt(buf, d.N); err != nil {
			return err
		}
		for i := range buf {
			buf[i] ^= 0xa5
		}
		_, err = f.WriteAt(buf, d.N)
		return err
	case "weakkeep": // +1,-2,+1 on three adjacent bytes at/after offset N: the rolling (weak) hash of the block stays the same
		f, err := os.OpenFile(full, os.O_RDWR, 0)
		if err != nil {
			return err
		}
		defer f.Close()
		st, err := f.Stat()
		if err != nil {
			return err
		}
		end := (d.N/BS + 1) * BS // stay inside the block of offset N
		if end > st.Size() {
			end = st.Size()
		}
		var b [3]byte
		for o := d.N; o+3 <= end; o++ {
			if _, err := f.ReadAt(b[:], o); err != nil {
				return err
			}
			if b[0] < 255 && b[1] >= 2 && b[2] < 255 {
				b[0], b[1], b[2] = b[0]+1, b[1]-2, b[2]+1
				_, err = f.WriteAt(b[:], o)
				return err
			}
		}
		return fmt.Errorf("weakkeep: no suitable byte triple in the block of offset %d", d.N)
	case "tofifo": // replace a file by a named pipe that nobody ever writes to
		os.RemoveAll(full)
		return syscall.Mkfifo(full, 0o644)
	case "truncate": // to length N
		return os.Truncate(full, d.N)
	case "extend": // by N random bytes
		f, err := os.OpenFile(full, os.O_WRONLY|os.O_APPEND, 0)
		if err != nil {
			return err
		}
		defer f.Close()
		_, err = f.Write(RandomBytes(d.N, uint64(d.N)*31+7))
		return err
	case "fill": // write N random bytes into an (empty) file
		return os.WriteFile(full, RandomBytes(d.N, uint64(d.N)+99), 0o644)
	case "delete", "rmsymlink":
		return os.Remove(full)
	case "rmtree": // delete a directory with everything below
		return os.RemoveAll(full)
	case "emptydir": // keep the directory, remove its content
		des, err := os.ReadDir(full)
		if err != nil {
			return err
		}
		for _, de := range des {
			if err := os.RemoveAll(filepath.Join(full, de.Name())); err != nil {
				return err
			}
		}
		return nil
	case "todir": // replace a file/symlink by an empty directory
		if err := os.RemoveAll(full); err != nil {
			return err
		}
		return os.Mkdir(full, 0o755)
	case "tononemptydir": // replace a file/symlink by a directory with a child
		if err := os.RemoveAll(full); err != nil {
			return err
		}
		if err := os.Mkdir(full, 0o755); err != nil {
			return err
		}
		return os.WriteFile(filepath.Join(full, "intruder.bin"), []byte("intruder"), 0o644)
	case "tosymlink": // replace anything by a symlink to S
		if err := os.RemoveAll(full); err != nil {
			return err
		}
		return os.Symlink(d.S, full)
	case "tofile": // replace a directory/symlink by a regular file
		if err := os.RemoveAll(full); err != nil {
			return err
		}
		return os.WriteFile(full, []byte("i used to be something else"), 0o644)
	case "retarget": // symlink now points to S
		if err := os.Remove(full); err != nil {
			return err
		}
		return os.Symlink(d.S, full)
	case "rmall": // the whole directory is emptied
		des, err := os.ReadDir(dir)
		if err != nil {
			return err
		}
		for _, de := range des {
			if err := os.RemoveAll(filepath.Join(dir, de.Name())); err != nil {
				return err
			}
		}
		return nil
	case "rmroot": // the directory itself is missing
		return os.RemoveAll(dir)
	}
	return fmt.Errorf("unknown damage op %q", d.Op)
}

// FileDamages enumerates the boundary-directed damages of one file of the given size.
func FileDamages(path string, size int64) []Damage {
	var out []Damage
	add := func(op string, n int64) { out = append(out, Damage{Op: op, Path: path, N: n}) }
	seen := map[int64]bool{}
	flip := func(o int64) {
		if o >= 0 && o < size && !seen[o] {
			seen[o] = true
			add("flip", o)
		}
	}
	for _, o := range []int64{0, 1, BS - 1, BS, BS + 1, size - 2, size - 1} {
		flip(o)
	}
	nb := (size + BS - 1) / BS
	if nb <= 12 {
		for b := int64(0); b < nb; b++ {
			flip(b * BS)
			flip((b+1)*BS - 1)
		}
	} else {
		for _, b := range []int64{1, nb / 2, nb - 2, nb - 1} {
			flip(b * BS)
			flip((b+1)*BS - 1)
		}
	}
	seenT := map[int64]bool{}
	trunc := func(l int64) {
		if l >= 0 && l < size && !seenT[l] {
			seenT[l] = true
			add("truncate", l)
		}
	}
	for _, l := range []int64{0, 1, BS - 1, BS, BS + 1, size - 1} {
		trunc(l)
	}
	if nb <= 12 {
		for b := int64(1); b < nb; b++ {
			trunc(b * BS)
		}
	} else {
		trunc((nb - 1) * BS)
		trunc((nb / 2) * BS)
	}
	if size == 0 {
		for _, n := range []int64{1, 5, BS, BS + 1} {
			add("fill", n)
		}
	} else {
		seenE := map[int64]bool{}
		ext := func(n int64) {
			if n > 0 && !seenE[n] {
				seenE[n] = true
				add("extend", n)
			}
		}
		rem := (BS - size%BS) % BS // bytes to the next block boundary
		for _, n := range []int64{1, 5, rem - 1, rem, rem + 1, BS, 2*BS + 3} {
			ext(n)
		}
	}
	if size > 5*MB {
		// long contiguous runs of damaged blocks (more than the 4 MiB wound aggregation limit)
		out = append(out, Damage{Op: "garble", Path: path, N: 0, S: fmt.Sprint(size)},
			Damage{Op: "garble", Path: path, N: BS, S: fmt.Sprint(4*MB + 3*BS)},
			Damage{Op: "garble", Path: path, N: 3*BS + 77, S: fmt.Sprint(size - 3*BS - 77)},
			Damage{Op: "garble", Path: path, N: 2 * BS, S: fmt.Sprint(4 * MB)})
	}
	// an edit that leaves the block's weak hash as it was (only the strong hash tells): first, middle and last block
	if size >= 3 {
		seenW := map[int64]bool{}
		for _, o := range []int64{0, (nb / 2) * BS, (nb - 1) * BS} {
			if o+3 <= size && !seenW[o] {
				seenW[o] = true
				add("weakkeep", o)
			}
		}
	}
	add("delete", 0)
	add("tofifo", 0)
	add("todir", 0)
	add("tononemptydir", 0)
	out = append(out, Damage{Op: "tosymlink", Path: path, S: "nowhere"})
	return out
}
