package lib

import (
	"sync/atomic"

	"github.com/itchio/wharf/archiver"
	"github.com/itchio/wharf/bsdiff"
	"github.com/itchio/wharf/pwr"
)

// Hooker receives wharf's verif hook events.
type Hooker interface {
	Hook(point string, a, b int64)
}

type hookBox struct{ h Hooker }

var curHook atomic.Pointer[hookBox]

// The hook variables of the instrumented packages are assigned exactly once, at
// process start and before any wharf goroutine exists; the active controller is
// switched through an atomic pointer, so goroutines that outlive the operation
// under test (bsdiff workers finishing after Do returned, leaked consumers)
// never race with the harness.
func init() {
	pwr.VerifHook = dispatchHook
	bsdiff.VerifHook = dispatchHook
	archiver.VerifHook = dispatchHook
}

func dispatchHook(point string, a, b int64) {
	if box := curHook.Load(); box != nil && box.h != nil {
		box.h.Hook(point, a, b)
	}
}

// SetHook installs h as the receiver of hook events (nil: none).
func SetHook(h Hooker) {
	if h == nil {
		curHook.Store(nil)
		return
	}
	curHook.Store(&hookBox{h: h})
}
