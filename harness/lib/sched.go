package lib

import (
	"fmt"
	"runtime"
	"strings"
	"sync"
	"time"
)

// Sched is the schedule controller installed on wharf's verif hooks (DESIGN §4.5).
// It never blocks a goroutine without bound: every wait has a deadline and is
// released when the operation under test terminates, so it cannot create a
// deadlock the program does not have.
type Sched struct {
	Mode string // perturb | validator-first | healer-first | none
	P    float64

	// CancelAt: call Cancel when point CancelPoint is hit for the CancelN-th time (1-based).
	CancelPoint string
	CancelN     int
	Cancel      func()
	// CancelSleep keeps the goroutine that hit the cancel point parked for a moment after
	// cancelling, so that the other goroutines observe the cancellation first.
	CancelSleep time.Duration
	// Hold: the FIRST goroutine reaching HoldPoint waits (bounded by HoldMax) until some goroutine reaches
	// any other hook point afterwards - used to keep a goroutine of one call parked until the next call on the same object is
	// under way. Released by Finish.
	HoldPoint string
	HoldMax   time.Duration
	held      bool
	Held      int
	others    int // hook events at points other than HoldPoint

	mu        sync.Mutex
	rng       *Rng
	events    []string
	counts    map[string]int
	healBusy  int
	lastHeal  time.Time
	dirsDone  bool
	done      bool
	cancelled bool
	MaxEvents int
}

func NewSched(mode string, seed uint64) *Sched {
	return &Sched{Mode: mode, P: 0.3, rng: NewRng(seed), counts: map[string]int{}, MaxEvents: 300, lastHeal: time.Now()}
}

// Finish releases every waiter (call when the operation under test has returned).
func (s *Sched) Finish() {
	s.mu.Lock()
	s.done = true
	s.mu.Unlock()
}

// Events returns the recorded (point, a, b) sequence.
func (s *Sched) Events() []string {
	s.mu.Lock()
	defer s.mu.Unlock()
	return append([]string(nil), s.events...)
}

// Signature is a hash of the interleaving of hook events.
func (s *Sched) Signature() string {
	return fmt.Sprintf("%x", Sum64([]byte(strings.Join(s.Events(), ","))))
}

func (s *Sched) Count(point string) int {
	s.mu.Lock()
	defer s.mu.Unlock()
	return s.counts[point]
}

func (s *Sched) DidCancel() bool {
	s.mu.Lock()
	defer s.mu.Unlock()
	return s.cancelled
}

// Index returns the position of the first event equal to ev, or -1.
func IndexOf(events []string, ev string) int {
	for i, e := range events {
		if e == ev {
			return i
		}
	}
	return -1
}

func (s *Sched) waitUntil(cond func() bool, max time.Duration) {
	deadline := time.Now().Add(max)
	for {
		s.mu.Lock()
		ok := cond() || s.done
		s.mu.Unlock()
		if ok || time.Now().After(deadline) {
			return
		}
		time.Sleep(50 * time.Microsecond)
	}
}

// Hook is the function to install as pwr.VerifHook / bsdiff.VerifHook / archiver.VerifHook.
func (s *Sched) Hook(point string, a, b int64) {
	s.mu.Lock()
	s.counts[point]++
	n := s.counts[point]
	if point != s.HoldPoint {
		s.others++
	}
	if len(s.events) < s.MaxEvents {
		s.events = append(s.events, fmt.Sprintf("%s:%d:%d", point, a, b))
	}
	switch point {
	case "heal-wound":
		s.healBusy++
	case "heal-wound-done":
		s.healBusy--
		s.lastHeal = time.Now()
	case "val-dirs-symlinks-done":
		s.dirsDone = true
	}
	doCancel := s.Cancel != nil && !s.cancelled && s.CancelPoint == point && n == s.CancelN
	if doCancel {
		s.cancelled = true
	}
	act := s.rng.Intn(100)
	mode := s.Mode
	hold := s.HoldPoint != "" && point == s.HoldPoint && !s.held
	var base int
	if hold {
		s.held = true
		s.Held++
		base = s.others
	}
	s.mu.Unlock()
	if hold {
		max := s.HoldMax
		if max == 0 {
			max = 2 * time.Second
		}
		s.waitUntil(func() bool { return s.others > base }, max)
		time.Sleep(200 * time.Microsecond)
		return
	}
	if doCancel {
		s.Cancel()
		if s.CancelSleep > 0 {
			time.Sleep(s.CancelSleep)
		}
	}
	switch mode {
	case "perturb":
		if float64(act) < s.P*100 {
			switch act % 4 {
			case 0:
				runtime.Gosched()
			case 1:
				t := time.Now()
				for time.Since(t) < time.Duration(1+act%50)*time.Microsecond {
				}
			case 2:
				time.Sleep(time.Duration(100+act*40) * time.Microsecond)
			default:
				time.Sleep(time.Duration(act%5+1) * time.Millisecond / 2)
			}
		}
	case "validator-first":
		// the healer does not process its first wound before the validator finished the directory/symlink pass
		// ... and, for the file wounds, stays behind the validator by a bounded delay
		if point == "heal-wound" {
			// only the FIRST wound waits for the directory pass (bounded): with more wounds than the wound channel
			// holds the validator cannot finish that pass while the healer is held back, and holding every wound
			// would only manufacture a slow-down the program does not have
			if n == 1 {
				s.waitUntil(func() bool { return s.dirsDone }, 200*time.Millisecond)
			}
			if n <= 50 {
				time.Sleep(2 * time.Millisecond)
			}
		}
	case "healer-first":
		// the validator pauses before each directory / symlink / file until the healer is idle
		if point == "val-dir" || point == "val-symlink" || point == "val-file-start" || point == "val-dirs-symlinks-done" {
			time.Sleep(300 * time.Microsecond)
			s.waitUntil(func() bool { return s.healBusy == 0 && time.Since(s.lastHeal) > 400*time.Microsecond }, 100*time.Millisecond)
		}
	}
}
