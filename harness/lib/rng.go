// Package lib holds the shared machinery of the runtime-monitoring harness:
// deterministic generators, independent oracles, the case runner and the
// evidence writer. Nothing in here decides a property by itself.
package lib

import (
	"math/rand"
)

// Rng is a deterministic PRNG (math/rand's frozen algorithm behind an explicit source).
type Rng struct {
	*rand.Rand
}

// NewRng returns a PRNG whose stream depends only on seed.
func NewRng(seed uint64) *Rng {
	return &Rng{rand.New(rand.NewSource(int64(mix(seed))))}
}

func mix(x uint64) uint64 {
	x += 0x9e3779b97f4a7c15
	x = (x ^ (x >> 30)) * 0xbf58476d1ce4e5b9
	x = (x ^ (x >> 27)) * 0x94d049bb133111eb
	return x ^ (x >> 31)
}

// Mix derives a sub-seed from a seed and a list of salts.
func Mix(seed uint64, salts ...uint64) uint64 {
	x := mix(seed)
	for _, s := range salts {
		x = mix(x ^ mix(s+0x1234567))
	}
	return x
}

// MixS derives a sub-seed from a seed and a string salt.
func MixS(seed uint64, s string) uint64 {
	x := mix(seed)
	for i := 0; i < len(s); i++ {
		x = mix(x ^ uint64(s[i]))
	}
	return x
}

func (r *Rng) Bool() bool            { return r.Intn(2) == 0 }
func (r *Rng) Chance(p float64) bool { return r.Float64() < p }
func (r *Rng) Range(lo, hi int) int { // inclusive
	if hi <= lo {
		return lo
	}
	return lo + r.Intn(hi-lo+1)
}
func (r *Rng) Range64(lo, hi int64) int64 { // inclusive
	if hi <= lo {
		return lo
	}
	return lo + r.Int63n(hi-lo+1)
}
func (r *Rng) PickInt(xs []int) int       { return xs[r.Intn(len(xs))] }
func (r *Rng) PickI64(xs []int64) int64   { return xs[r.Intn(len(xs))] }
func (r *Rng) PickStr(xs []string) string { return xs[r.Intn(len(xs))] }

// FillRandom fills p with a fast xorshift stream keyed by key.
func FillRandom(p []byte, key uint64) {
	s := mix(key) | 1
	i := 0
	for ; i+8 <= len(p); i += 8 {
		s ^= s << 13
		s ^= s >> 7
		s ^= s << 17
		p[i] = byte(s)
		p[i+1] = byte(s >> 8)
		p[i+2] = byte(s >> 16)
		p[i+3] = byte(s >> 24)
		p[i+4] = byte(s >> 32)
		p[i+5] = byte(s >> 40)
		p[i+6] = byte(s >> 48)
		p[i+7] = byte(s >> 56)
	}
	for ; i < len(p); i++ {
		s ^= s << 13
		s ^= s >> 7
		s ^= s << 17
		p[i] = byte(s)
	}
}

// RandomBytes returns n high-entropy bytes keyed by key.
func RandomBytes(n int64, key uint64) []byte {
	p := make([]byte, n)
	FillRandom(p, key)
	return p
}
