package lib

import (
	"regexp"
	"runtime"
	"sort"
	"strings"
	"time"
)

// AllGoroutines returns the full goroutine dump.
func AllGoroutines() string {
	buf := make([]byte, 1<<20)
	for {
		n := runtime.Stack(buf, true)
		if n < len(buf) {
			return string(buf[:n])
		}
		buf = make([]byte, 2*len(buf))
	}
}

var goHdr = regexp.MustCompile(`^goroutine (\d+) \[([^\],]+)`)

// GInfo is one goroutine of a dump that has a wharf frame.
type GInfo struct {
	ID    string
	State string
	Top   string // first wharf frame
	Text  string
}

// WharfGoroutineList parses a dump and keeps goroutines with a wharf (non-harness) frame.
func WharfGoroutineList(dump string) []GInfo {
	var out []GInfo
	for _, blk := range strings.Split(dump, "\n\n") {
		lines := strings.Split(blk, "\n")
		if len(lines) == 0 {
			continue
		}
		m := goHdr.FindStringSubmatch(lines[0])
		if m == nil {
			continue
		}
		top := ""
		for _, l := range lines[1:] {
			if strings.HasPrefix(l, "github.com/itchio/wharf/") {
				top = l
				if i := strings.Index(top, "("); i > 0 {
					top = top[:i]
				}
				break
			}
		}
		if top == "" {
			continue
		}
		out = append(out, GInfo{ID: m[1], State: m[2], Top: top, Text: blk})
	}
	sort.Slice(out, func(i, j int) bool { return out[i].ID < out[j].ID })
	return out
}

// WharfGoroutines renders the wharf goroutines of the current process.
func WharfGoroutines() string {
	var sb strings.Builder
	for _, g := range WharfGoroutineList(AllGoroutines()) {
		sb.WriteString(g.Text)
		sb.WriteString("\n\n")
	}
	return sb.String()
}

func blockedState(s string) bool {
	switch s {
	case "chan send", "chan receive", "select", "semacquire", "sync.Mutex.Lock", "sync.Cond.Wait", "IO wait", "sync.WaitGroup.Wait", "select (no cases)", "chan send (nil chan)", "chan receive (nil chan)", "sync.RWMutex.Lock", "sync.RWMutex.RLock":
		return true
	}
	return false
}

// HangVerdict is the outcome of RunWithQuiescence.
type HangVerdict struct {
	Returned bool
	Deadlock bool   // quiescent without having returned: every wharf goroutine parked in the same blocking state in two dumps
	Running  bool   // some wharf goroutine still runnable/running
	Report   string // goroutine dumps as witness
	Elapsed  time.Duration
}

// RunWithQuiescence runs f in its own goroutine. If it has not returned after timeout it takes two
// goroutine dumps one second apart and decides on logical quiescence (DESIGN §3), never on the timer alone.
func RunWithQuiescence(f func(), timeout time.Duration) HangVerdict {
	done := make(chan struct{})
	t0 := time.Now()
	go func() {
		defer close(done)
		f()
	}()
	select {
	case <-done:
		return HangVerdict{Returned: true, Elapsed: time.Since(t0)}
	case <-time.After(timeout):
	}
	d1 := WharfGoroutineList(AllGoroutines())
	select {
	case <-done:
		return HangVerdict{Returned: true, Elapsed: time.Since(t0)}
	case <-time.After(time.Second):
	}
	d2 := WharfGoroutineList(AllGoroutines())
	v := HangVerdict{Elapsed: time.Since(t0)}
	same := len(d1) == len(d2) && len(d1) > 0
	allBlocked := true
	for i := range d2 {
		if !blockedState(d2[i].State) {
			allBlocked = false
		}
		if same && (d1[i].ID != d2[i].ID || d1[i].State != d2[i].State || d1[i].Top != d2[i].Top) {
			same = false
		}
	}
	var sb strings.Builder
	for _, g := range d2 {
		sb.WriteString(g.Text)
		sb.WriteString("\n\n")
	}
	v.Report = sb.String()
	if same && allBlocked {
		v.Deadlock = true
	} else {
		v.Running = true
	}
	return v
}
