package lib

import (
	"bytes"
	"context"
	"fmt"
	"io"
	"os"
	"runtime/debug"

	"github.com/itchio/headway/state"
	"github.com/itchio/lake"
	"github.com/itchio/lake/pools/fspool"
	"github.com/itchio/lake/tlc"
	"github.com/itchio/savior/seeksource"
	"github.com/itchio/wharf/bsdiff"
	"github.com/itchio/wharf/pwr"
	"github.com/itchio/wharf/pwr/bowl"
	"github.com/itchio/wharf/pwr/patcher"
	"github.com/itchio/wharf/pwr/rediff"
	"github.com/itchio/wharf/wsync"

	_ "github.com/itchio/wharf/compressors/cbrotli"
	_ "github.com/itchio/wharf/compressors/gzip"
	_ "github.com/itchio/wharf/decompressors/brotli"
	_ "github.com/itchio/wharf/decompressors/gzip"
)

// Comp is a compression setting.
type Comp struct {
	Algo    string `json:"algo"` // none | gzip | brotli
	Quality int    `json:"q"`
}

func (c Comp) String() string { return fmt.Sprintf("%s-q%d", c.Algo, c.Quality) }

func (c Comp) Settings() *pwr.CompressionSettings {
	cs := &pwr.CompressionSettings{Quality: int32(c.Quality)}
	switch c.Algo {
	case "gzip":
		cs.Algorithm = pwr.CompressionAlgorithm_GZIP
	case "brotli":
		cs.Algorithm = pwr.CompressionAlgorithm_BROTLI
	default:
		cs.Algorithm = pwr.CompressionAlgorithm_NONE
	}
	return cs
}

// AllComps lists every registered (algorithm, quality): NONE; GZIP -2..9; BROTLI 0..11.
func AllComps() []Comp {
	out := []Comp{{"none", 0}}
	for q := -2; q <= 9; q++ {
		out = append(out, Comp{"gzip", q})
	}
	for q := 0; q <= 11; q++ {
		out = append(out, Comp{"brotli", q})
	}
	return out
}

// FastComps is a cheap representative subset.
func FastComps() []Comp {
	return []Comp{{"none", 0}, {"gzip", 1}, {"gzip", 9}, {"brotli", 1}, {"brotli", 9}}
}

// Quiet is a consumer that drops everything.
func Quiet() *state.Consumer { return &state.Consumer{} }

// Walk returns the tlc container of dir (the way butler produces it).
func Walk(dir string) (*tlc.Container, error) {
	return tlc.WalkAny(dir, tlc.WalkOpts{})
}

// Guard runs f and converts a panic in the calling goroutine into an error with stack.
func Guard(f func() error) (err error, panicked bool, stack string) {
	defer func() {
		if r := recover(); r != nil {
			panicked = true
			stack = string(debug.Stack())
			err = fmt.Errorf("panic: %v", r)
		}
	}()
	err = f()
	return
}

// DiffResult is what a diff produced.
type DiffResult struct {
	Patch, Sig   []byte
	Fresh, Reuse int64
	OldC, NewC   *tlc.Container
	OldSig       []wsync.BlockHash
}

// PoolWrap optionally wraps the source pool (short reads, yields...).
type PoolWrap func(lake.Pool) lake.Pool

// StoredOldSig makes DiffDirs obtain the old build's signature the way a push does: from the signature STREAM an
// earlier WritePatch wrote (read back with ReadSignature), instead of an in-process ComputeSignature.
var StoredOldSig = false

// ReuseDiffCtx, when set, is the DiffContext OBJECT DiffDirs fills in and runs (a caller that keeps one context for
// several diffs); nil = a new context per call.
var ReuseDiffCtx *pwr.DiffContext

// OldContainerTweak, when set, edits the old build's container after the walk and before it is signed and diffed
// against (a container that was not produced by a directory walk - from a zip, say - lists its directories in any order).
var OldContainerTweak func(*tlc.Container)

// DiffDirs runs the real ComputeSignature + WritePatch.
func DiffDirs(oldDir, newDir string, comp Comp, wrap PoolWrap, patchW, sigW io.Writer) (*DiffResult, error) {
	ctx := context.Background()
	oldC, err := Walk(oldDir)
	if err != nil {
		return nil, err
	}
	newC, err := Walk(newDir)
	if err != nil {
		return nil, err
	}
	if OldContainerTweak != nil {
		OldContainerTweak(oldC)
	}
	oldSig, err := pwr.ComputeSignature(ctx, oldC, fspool.New(oldC, oldDir), Quiet())
	if err != nil {
		return nil, fmt.Errorf("ComputeSignature(old): %w", err)
	}
	if StoredOldSig {
		// "push v1" = diff of nothing against the old build, keeping the signature stream it writes
		var sb bytes.Buffer
		d0 := &pwr.DiffContext{Compression: comp.Settings(), Consumer: Quiet(), SourceContainer: oldC, Pool: fspool.New(oldC, oldDir),
			TargetContainer: &tlc.Container{}, TargetSignature: nil}
		if err := d0.WritePatch(ctx, io.Discard, &sb); err != nil {
			return nil, fmt.Errorf("WritePatch(nothing -> old): %w", err)
		}
		si, err := ReadSig(sb.Bytes())
		if err != nil {
			return nil, fmt.Errorf("ReadSignature(stored old signature): %w", err)
		}
		oldSig = si.Hashes
	}
	var pool lake.Pool = fspool.New(newC, newDir)
	if wrap != nil {
		pool = wrap(pool)
	}
	dctx := ReuseDiffCtx
	if dctx == nil {
		dctx = &pwr.DiffContext{}
	}
	dctx.Compression, dctx.Consumer = comp.Settings(), Quiet()
	dctx.SourceContainer, dctx.Pool = newC, pool
	dctx.TargetContainer, dctx.TargetSignature = oldC, oldSig
	fresh0, reuse0 := dctx.FreshBytes, dctx.ReusedBytes
	var pb, sb *bytes.Buffer
	if patchW == nil {
		pb = new(bytes.Buffer)
		patchW = pb
	}
	if sigW == nil {
		sb = new(bytes.Buffer)
		sigW = sb
	}
	if err := dctx.WritePatch(ctx, patchW, sigW); err != nil {
		return nil, fmt.Errorf("WritePatch: %w", err)
	}
	res := &DiffResult{Fresh: dctx.FreshBytes - fresh0, Reuse: dctx.ReusedBytes - reuse0, OldC: oldC, NewC: newC, OldSig: oldSig}
	if pb != nil {
		res.Patch = pb.Bytes()
	}
	if sb != nil {
		res.Sig = sb.Bytes()
	}
	return res, nil
}

// ApplyFresh applies patch onto oldDir into outDir through a fresh bowl (+Commit).
func ApplyFresh(patch []byte, oldDir, outDir string) error {
	p, err := patcher.New(seeksource.FromBytes(patch), Quiet())
	if err != nil {
		return fmt.Errorf("patcher.New: %w", err)
	}
	var targetPool lake.Pool = fspool.New(p.GetTargetContainer(), oldDir)
	if TargetPoolWrap != nil {
		targetPool = TargetPoolWrap(targetPool)
	}
	b, err := bowl.NewFreshBowl(bowl.FreshBowlParams{
		SourceContainer: p.GetSourceContainer(),
		TargetContainer: p.GetTargetContainer(),
		TargetPool:      targetPool,
		OutputFolder:    outDir,
	})
	if err != nil {
		return fmt.Errorf("NewFreshBowl: %w", err)
	}
	if err := p.Resume(nil, targetPool, b); err != nil {
		return fmt.Errorf("Resume: %w", err)
	}
	if err := b.Commit(); err != nil {
		return fmt.Errorf("Commit: %w", err)
	}
	return nil
}

// OverlayApply patches dir in place via stage; beforeCommit runs right before Commit.
func OverlayApply(patch []byte, dir, stage string, beforeCommit func() error) error {
	p, err := patcher.New(seeksource.FromBytes(patch), Quiet())
	if err != nil {
		return fmt.Errorf("patcher.New: %w", err)
	}
	var targetPool lake.Pool = fspool.New(p.GetTargetContainer(), dir)
	if TargetPoolWrap != nil {
		targetPool = TargetPoolWrap(targetPool)
	}
	b, err := bowl.NewOverlayBowl(bowl.OverlayBowlParams{
		SourceContainer: p.GetSourceContainer(),
		TargetContainer: p.GetTargetContainer(),
		OutputFolder:    dir,
		StageFolder:     stage,
	})
	if err != nil {
		return fmt.Errorf("NewOverlayBowl: %w", err)
	}
	if err := p.Resume(nil, targetPool, b); err != nil {
		return fmt.Errorf("Resume: %w", err)
	}
	if beforeCommit != nil {
		if err := beforeCommit(); err != nil {
			return err
		}
	}
	if err := b.Commit(); err != nil {
		return fmt.Errorf("Commit: %w", err)
	}
	return nil
}

// OptParams are the tuning parameters of the optimizer.
type OptParams struct {
	Partitions  int   `json:"partitions"`
	SSC         int   `json:"ssc"`
	ForceMapAll bool  `json:"forceMapAll"`
	SizeLimit   int64 `json:"sizeLimit"`
	Comp        *Comp `json:"comp,omitempty"`
	// Stats, when set, is handed to the optimizer as rediff.Params.BsdiffStats (public statistics)
	Stats *bsdiff.DiffStats `json:"-"`
}

// Optimize runs the real rediff over patch.
func Optimize(patch []byte, oldDir, newDir string, op OptParams, out io.Writer) error {
	return OptimizeWith(patch, oldDir, newDir, op, out, nil)
}

// OptPools are the two pools of an optimizer run, kept by a caller that runs the optimizer several times.
type OptPools struct {
	Target, Source lake.Pool
}

// OptimizeWith is Optimize over pools that outlive the call: when shared is non-nil its pools are created on first
// use and NOT closed (a parameter sweep that builds its pools once).
func OptimizeWith(patch []byte, oldDir, newDir string, op OptParams, out io.Writer, shared *OptPools) error {
	params := rediff.Params{
		PatchReader:           seeksource.FromBytes(patch),
		Consumer:              Quiet(),
		Partitions:            op.Partitions,
		SuffixSortConcurrency: op.SSC,
		ForceMapAll:           op.ForceMapAll,
		RediffSizeLimit:       op.SizeLimit,
		BsdiffStats:           op.Stats,
	}
	if op.Comp != nil {
		params.Compression = op.Comp.Settings()
	}
	rc, err := rediff.NewContext(params)
	if err != nil {
		return fmt.Errorf("rediff.NewContext: %w", err)
	}
	var tp, sp lake.Pool
	if shared != nil {
		if shared.Target == nil {
			shared.Target = fspool.New(rc.GetTargetContainer(), oldDir)
			shared.Source = fspool.New(rc.GetSourceContainer(), newDir)
			if TargetPoolWrap != nil {
				shared.Target, shared.Source = TargetPoolWrap(shared.Target), TargetPoolWrap(shared.Source)
			}
		}
		tp, sp = shared.Target, shared.Source
	} else {
		tp = fspool.New(rc.GetTargetContainer(), oldDir)
		sp = fspool.New(rc.GetSourceContainer(), newDir)
		if TargetPoolWrap != nil {
			tp, sp = TargetPoolWrap(tp), TargetPoolWrap(sp)
		}
		defer tp.Close()
		defer sp.Close()
	}
	if err := rc.Optimize(rediff.OptimizeParams{TargetPool: tp, SourcePool: sp, PatchWriter: out}); err != nil {
		return fmt.Errorf("Optimize: %w", err)
	}
	return nil
}

// Scratch returns a fresh scratch directory (tmpfs when available).
func Scratch(prefix string) (string, error) {
	base := os.Getenv("VERIF_SCRATCH")
	if base == "" {
		if st, err := os.Stat("/dev/shm"); err == nil && st.IsDir() {
			base = "/dev/shm"
		} else {
			base = os.TempDir()
		}
	}
	return os.MkdirTemp(base, "verif-"+prefix+"-")
}

// ReadSig reads a signature the way callers do (source resumed at 0 first).
func ReadSig(sig []byte) (*pwr.SignatureInfo, error) {
	src := seeksource.FromBytes(sig)
	if _, err := src.Resume(nil); err != nil {
		return nil, err
	}
	return pwr.ReadSignature(context.Background(), src)
}
