package lib

import (
	"bytes"
	"fmt"
	"os"
	"path"
	"path/filepath"
	"sort"
	"strings"
	"syscall"
)

// Kind of a tree entry.
type Kind int

const (
	KFile Kind = iota
	KDir
	KSymlink
	KSpecial // named pipe, socket, device: only ever seen in damaged trees (never opened by the oracle)
)

func (k Kind) String() string {
	switch k {
	case KFile:
		return "file"
	case KDir:
		return "dir"
	case KSymlink:
		return "symlink"
	case KSpecial:
		return "special"
	}
	return "?"
}

// Entry is one file, directory or symlink of an in-memory build.
type Entry struct {
	Path string // slash separated, relative
	Kind Kind
	Data []byte // files
	Dest string // symlinks
}

// Build is an in-memory directory tree.
type Build struct {
	E map[string]*Entry
}

func NewBuild() *Build { return &Build{E: map[string]*Entry{}} }

func (b *Build) Clone() *Build {
	c := NewBuild()
	for p, e := range b.E {
		ne := *e
		c.E[p] = &ne
	}
	return c
}

func (b *Build) addParents(p string) {
	for d := path.Dir(p); d != "." && d != "/"; d = path.Dir(d) {
		if _, ok := b.E[d]; !ok {
			b.E[d] = &Entry{Path: d, Kind: KDir}
		}
	}
}

func (b *Build) PutFile(p string, data []byte) {
	b.E[p] = &Entry{Path: p, Kind: KFile, Data: data}
	b.addParents(p)
}
func (b *Build) PutDir(p string) {
	b.E[p] = &Entry{Path: p, Kind: KDir}
	b.addParents(p)
}
func (b *Build) PutSymlink(p, dest string) {
	b.E[p] = &Entry{Path: p, Kind: KSymlink, Dest: dest}
	b.addParents(p)
}

// Remove deletes p and everything below it.
func (b *Build) Remove(p string) {
	delete(b.E, p)
	pre := p + "/"
	for q := range b.E {
		if strings.HasPrefix(q, pre) {
			delete(b.E, q)
		}
	}
}

// CanPlace says whether a new non-directory entry can be put at p without
// colliding with an existing entry or with a non-directory ancestor.
func (b *Build) CanPlace(p string) bool {
	if _, ok := b.E[p]; ok {
		return false
	}
	for d := path.Dir(p); d != "." && d != "/"; d = path.Dir(d) {
		if e, ok := b.E[d]; ok && e.Kind != KDir {
			return false
		}
	}
	return true
}

// Sorted returns entries sorted by path.
func (b *Build) Sorted() []*Entry {
	out := make([]*Entry, 0, len(b.E))
	for _, e := range b.E {
		out = append(out, e)
	}
	sort.Slice(out, func(i, j int) bool { return out[i].Path < out[j].Path })
	return out
}

// Files returns file entries sorted by path.
func (b *Build) Files() []*Entry {
	var out []*Entry
	for _, e := range b.Sorted() {
		if e.Kind == KFile {
			out = append(out, e)
		}
	}
	return out
}

func (b *Build) TotalSize() int64 {
	var n int64
	for _, e := range b.E {
		n += int64(len(e.Data))
	}
	return n
}

// Materialize writes the build into dir (created if needed; must be empty or absent).
func (b *Build) Materialize(dir string) error {
	if err := os.MkdirAll(dir, 0o755); err != nil {
		return err
	}
	es := b.Sorted()
	for _, e := range es {
		if e.Kind == KDir {
			if err := os.MkdirAll(filepath.Join(dir, filepath.FromSlash(e.Path)), 0o755); err != nil {
				return err
			}
		}
	}
	for _, e := range es {
		full := filepath.Join(dir, filepath.FromSlash(e.Path))
		switch e.Kind {
		case KFile:
			if err := os.MkdirAll(filepath.Dir(full), 0o755); err != nil {
				return err
			}
			if err := os.WriteFile(full, e.Data, 0o644); err != nil {
				return err
			}
		case KSymlink:
			if err := os.MkdirAll(filepath.Dir(full), 0o755); err != nil {
				return err
			}
			if err := os.Symlink(e.Dest, full); err != nil {
				return err
			}
		}
	}
	return nil
}

// ReadTree reads dir into a Build using only Lstat/Readlink/ReadFile/ReadDir
// (never wharf or tlc): the independent tree oracle.
func ReadTree(dir string) (*Build, error) {
	b := NewBuild()
	var walk func(rel string) error
	walk = func(rel string) error {
		full := filepath.Join(dir, filepath.FromSlash(rel))
		des, err := os.ReadDir(full)
		if err != nil {
			return err
		}
		for _, de := range des {
			p := de.Name()
			if rel != "" {
				p = rel + "/" + de.Name()
			}
			fp := filepath.Join(dir, filepath.FromSlash(p))
			st, err := os.Lstat(fp)
			if err != nil {
				return err
			}
			switch {
			case st.Mode()&os.ModeSymlink != 0:
				d, err := os.Readlink(fp)
				if err != nil {
					return err
				}
				b.E[p] = &Entry{Path: p, Kind: KSymlink, Dest: d}
			case st.IsDir():
				b.E[p] = &Entry{Path: p, Kind: KDir}
				if err := walk(p); err != nil {
					return err
				}
			case st.Mode().IsRegular():
				data, err := os.ReadFile(fp)
				if err != nil {
					return err
				}
				b.E[p] = &Entry{Path: p, Kind: KFile, Data: data}
			default:
				b.E[p] = &Entry{Path: p, Kind: KSpecial}
			}
		}
		return nil
	}
	if err := walk(""); err != nil {
		return nil, err
	}
	return b, nil
}

// TreeDiff is one difference found by DiffBuilds.
type TreeDiff struct {
	Path string `json:"path"`
	What string `json:"what"` // missing | extra | kind | dest | length | bytes
	Note string `json:"note,omitempty"`
}

func (d TreeDiff) String() string { return d.Path + ": " + d.What + " " + d.Note }

// DiffBuilds compares got against want. If onlyWant is true, entries of got that
// are not in want are not reported.
func DiffBuilds(got, want *Build, onlyWant bool) []TreeDiff {
	var out []TreeDiff
	for _, w := range want.Sorted() {
		g, ok := got.E[w.Path]
		if !ok {
			out = append(out, TreeDiff{w.Path, "missing", w.Kind.String()})
			continue
		}
		if g.Kind != w.Kind {
			out = append(out, TreeDiff{w.Path, "kind", fmt.Sprintf("got %s want %s", g.Kind, w.Kind)})
			continue
		}
		switch w.Kind {
		case KSymlink:
			if g.Dest != w.Dest {
				out = append(out, TreeDiff{w.Path, "dest", fmt.Sprintf("got %q want %q", g.Dest, w.Dest)})
			}
		case KFile:
			if len(g.Data) != len(w.Data) {
				out = append(out, TreeDiff{w.Path, "length", fmt.Sprintf("got %d want %d (first diff at %d)", len(g.Data), len(w.Data), firstDiff(g.Data, w.Data))})
			} else if !bytes.Equal(g.Data, w.Data) {
				out = append(out, TreeDiff{w.Path, "bytes", fmt.Sprintf("first diff at %d of %d", firstDiff(g.Data, w.Data), len(w.Data))})
			}
		}
	}
	if !onlyWant {
		for _, g := range got.Sorted() {
			if _, ok := want.E[g.Path]; !ok {
				out = append(out, TreeDiff{g.Path, "extra", g.Kind.String()})
			}
		}
	}
	return out
}

func firstDiff(a, b []byte) int {
	n := len(a)
	if len(b) < n {
		n = len(b)
	}
	for i := 0; i < n; i++ {
		if a[i] != b[i] {
			return i
		}
	}
	return n
}

// DiffStrings renders at most max differences.
func DiffStrings(ds []TreeDiff, max int) []string {
	var out []string
	for i, d := range ds {
		if i >= max {
			out = append(out, fmt.Sprintf("... and %d more", len(ds)-max))
			break
		}
		out = append(out, d.String())
	}
	return out
}

// StatEntry is the "has it been touched at all" view of one entry.
type StatEntry struct {
	Mode  os.FileMode
	Size  int64
	Ino   uint64
	Mtime int64
	Dest  string
	Sum   uint64
}

// TreeStat records inode, mtime, size, mode and a content checksum for every entry below dir.
func TreeStat(dir string) (map[string]StatEntry, error) {
	out := map[string]StatEntry{}
	err := filepath.Walk(dir, func(p string, fi os.FileInfo, err error) error {
		if err != nil {
			return err
		}
		rel, _ := filepath.Rel(dir, p)
		se := StatEntry{Mode: fi.Mode(), Mtime: fi.ModTime().UnixNano()}
		if st, ok := fi.Sys().(*syscall.Stat_t); ok {
			se.Ino = st.Ino
		}
		if fi.Mode()&os.ModeSymlink != 0 {
			se.Dest, _ = os.Readlink(p)
		} else if fi.Mode().IsRegular() {
			se.Size = fi.Size()
			data, err := os.ReadFile(p)
			if err != nil {
				return err
			}
			se.Sum = Sum64(data)
		}
		out[filepath.ToSlash(rel)] = se
		return nil
	})
	return out, err
}

// DiffStat compares two TreeStat results.
func DiffStat(a, b map[string]StatEntry) []string {
	var out []string
	for p, x := range a {
		y, ok := b[p]
		if !ok {
			out = append(out, p+": disappeared")
			continue
		}
		if x != y {
			out = append(out, fmt.Sprintf("%s: changed %+v -> %+v", p, x, y))
		}
	}
	for p := range b {
		if _, ok := a[p]; !ok {
			out = append(out, p+": appeared")
		}
	}
	sort.Strings(out)
	return out
}

// Sum64 is FNV-1a 64.
func Sum64(p []byte) uint64 {
	h := uint64(14695981039346656037)
	for _, c := range p {
		h ^= uint64(c)
		h *= 1099511628211
	}
	return h
}

// CopyTree copies src to dst with plain os calls (files, dirs, symlinks).
func CopyTree(src, dst string) error {
	b, err := ReadTree(src)
	if err != nil {
		return err
	}
	return b.Materialize(dst)
}
