package props

import (
	"bytes"
	"encoding/gob"
	"errors"
	"fmt"
	"os"
	"path/filepath"

	"github.com/itchio/lake"
	"github.com/itchio/lake/pools/fspool"
	"github.com/itchio/savior/seeksource"
	"github.com/itchio/wharf/pwr/bowl"
	"github.com/itchio/wharf/pwr/patcher"
	pkgerrors "github.com/pkg/errors"
	"verif/lib"
)

// C03 — interrupted application resumes from any checkpoint (DESIGN §5 C03).
// Crash model (harness side): the on-disk state at checkpoint j is captured by
// snapshotting the output / stage folder inside SaveConsumer.Save during one
// uninterrupted always-save run (stopping there would leave exactly that state),
// or produced by aborting a run in the middle of an operation with an injected
// pool read error. A resume from checkpoint k <= j then runs on that state after
// optional forward-only damage (everything written after k may be lost).

type c03Spec struct {
	PairSeed  uint64   `json:"pairSeed"`
	Family    string   `json:"family"`
	Bowl      string   `json:"bowl"` // fresh | overlay
	Optimized bool     `json:"optimized"`
	Comp      lib.Comp `json:"comp"`
	Lags      []int    `json:"lags"`
	Damages   int      `json:"damages"` // damage variants per (k,j)
	MaxK      int      `json:"maxK"`
	Sized     bool     `json:"sized"` // progress family: only count checkpoints
}

func c03Family(seed uint64, family string) *lib.Pair {
	r := lib.NewRng(lib.Mix(seed, 303))
	p := &lib.Pair{Old: lib.NewBuild(), New: lib.NewBuild(), Feat: map[string]bool{}}
	edit := func(data []byte, k int) []byte {
		out := append([]byte(nil), data...)
		for i := 0; i < k; i++ {
			if len(out) < 10 {
				break
			}
			off := r.Range(0, len(out)-5)
			n := r.PickInt([]int{1, 100, 5000, lib.BS + 3})
			if off+n > len(out) {
				n = len(out) - off
			}
			lib.FillRandom(out[off:off+n], r.Uint64())
			if r.Chance(0.3) { // shift the rest
				ins := lib.RandomBytes(int64(r.Range(1, 3000)), r.Uint64())
				out = append(out[:off:off], append(ins, out[off:]...)...)
			}
		}
		return out
	}
	switch family {
	case "sized-small", "sized-big":
		// incompressible fresh data cut into many operations (the patcher can only ask for a
		// checkpoint between two operations): >= 6 MiB for algorithms that checkpoint often,
		// >= 44 MiB for brotli q>=4 (which checkpoints only every ~8-16 MiB)
		total := 6 * lib.MB
		if family == "sized-big" {
			total = 44 * lib.MB
		}
		old := lib.RandomBytes(8*lib.BS, 1)
		p.Old.PutFile("a.bin", old)
		var nd []byte
		for i := 0; len(nd) < total; i++ {
			nd = append(nd, lib.RandomBytes(96*lib.KB+int64(i%7), r.Uint64())...)
			b := i % 8
			nd = append(nd, old[b*lib.BS:(b+1)*lib.BS]...)
		}
		p.New.PutFile("a.bin", nd)
	case "lowentropy":
		// zero regions and repeated blocks: after a resume, data compared at a wrong old offset can still look equal
		mkLow := func(blocks int) []byte {
			var d []byte
			tile := lib.RandomBytes(32*lib.KB, r.Uint64())
			for b := 0; b < blocks; b++ {
				switch r.Intn(4) {
				case 0:
					d = append(d, make([]byte, 32*lib.KB)...)
				case 1:
					d = append(d, tile...)
				default:
					d = append(d, lib.RandomBytes(32*lib.KB, r.Uint64())...)
				}
			}
			return d
		}
		for i := 0; i < 3; i++ {
			o := append(make([]byte, 64*lib.KB), mkLow(r.Range(10, 24))...)
			nd := append([]byte(nil), o...)
			for off := 70 * lib.KB; off < len(nd); off += 64*lib.KB + r.Intn(999) {
				nd[off] ^= 0x01 // a one-byte change every ~64 KiB: many operations, hence many checkpoints inside the file
			}
			for k := 0; k < r.Range(4, 8); k++ { // zero some 32 KiB blocks, randomise others
				b := r.Range(2, len(nd)/(32*lib.KB)-1)
				blk := nd[b*32*lib.KB : (b+1)*32*lib.KB]
				if r.Bool() {
					for x := range blk {
						blk[x] = 0
					}
				} else {
					lib.FillRandom(blk[:r.Range(1, len(blk))], r.Uint64())
				}
			}
			name := fmt.Sprintf("low%d.bin", i)
			p.Old.PutFile(name, o)
			p.New.PutFile(name, nd)
		}
		p.New.PutFile("new-low.bin", mkLow(6))
	case "delayed": // one large fresh file first in container order: many 4 MiB operations without any other message
		p.New.PutFile("aaa-fresh.bin", lib.RandomBytes(41*lib.MB+777, r.Uint64()))
		a := lib.RandomBytes(3*lib.BS+99, r.Uint64())
		p.Old.PutFile("b.bin", a)
		p.New.PutFile("b.bin", edit(a, 2))
		p.New.PutFile("c-fresh.bin", lib.RandomBytes(9000, r.Uint64()))
	case "big": // one file spanning > 4 MiB so several checkpoints fall inside one file
		a := lib.RandomBytes(4*lib.MB+3*lib.BS+1234, r.Uint64())
		p.Old.PutFile("big.bin", a)
		p.New.PutFile("big.bin", edit(a, 6))
		p.Old.PutFile("small.bin", lib.RandomBytes(1000, r.Uint64()))
		p.New.PutFile("small.bin", lib.RandomBytes(1200, r.Uint64()))
		p.New.PutFile("fresh.bin", lib.RandomBytes(5*lib.MB+5, r.Uint64()))
	default: // mixed multi-file family
		a := lib.RandomBytes(int64(r.Range(6, 14))*lib.BS+int64(r.Intn(lib.BS)), r.Uint64())
		b := lib.RandomBytes(int64(r.Range(3, 8))*lib.BS+int64(r.Intn(lib.BS)), r.Uint64())
		c := lib.RandomBytes(int64(r.Range(1, 3*lib.BS)), r.Uint64())
		p.Old.PutFile("dir/a.bin", a)
		p.Old.PutFile("dir/b.bin", b)
		p.Old.PutFile("c.bin", c)
		p.Old.PutFile("empty-old.bin", nil)
		p.Old.PutFile("gone.bin", lib.RandomBytes(5000, r.Uint64()))
		p.New.PutFile("dir/a.bin", edit(a, r.Range(2, 5))) // patched in place: long data runs + block ranges
		p.New.PutFile("dir/b-renamed.bin", b)              // whole-file copy
		p.New.PutFile("dir/b.bin", edit(b, 2))             // patched and used as rename source
		p.New.PutFile("c.bin", c)                          // untouched
		// a file that is kept as it is AND copied whole to a new path (kept first, the copy at the very end)
		k := lib.RandomBytes(int64(r.Range(1, 2*lib.BS)), r.Uint64())
		p.Old.PutFile("aaa-kept.bin", k)
		p.New.PutFile("aaa-kept.bin", k)
		p.New.PutFile("zzz-copy-of-kept.bin", k)
		p.New.PutFile("empty-new.bin", nil) // empty file
		p.New.PutFile("empty-old.bin", lib.RandomBytes(777, r.Uint64()))
		p.New.PutFile("new/fresh.bin", lib.RandomBytes(int64(r.Range(1, 5*lib.BS)), r.Uint64()))
		p.New.PutFile("z-mix.bin", append(append([]byte(nil), a[:3*lib.BS]...), b[:2*lib.BS]...))
		p.Old.PutSymlink("lnk", "c.bin")
		p.New.PutSymlink("lnk", "dir/a.bin")
		p.New.PutDir("emptydir")
	}
	return p
}

func c03Cases(tier string, seed uint64, flavor string) []lib.Case {
	var cases []lib.Case
	add := func(s c03Spec) {
		kind := "resume"
		if s.Sized {
			kind = "progress"
		}
		cases = append(cases, lib.Case{Seed: s.PairSeed, Kind: kind, Spec: lib.MustSpec(s)})
	}
	nfam, lags, dmg, maxK := 3, []int{0, 1}, 2, 24
	comps := []lib.Comp{{Algo: "none"}, {Algo: "gzip", Quality: 1}, {Algo: "brotli", Quality: 1}}
	if tier == "thorough" {
		nfam, lags, dmg, maxK = 20, []int{0, 1, 3, -1}, 5, 60
		comps = lib.FastComps()
	}
	for f := 0; f < nfam; f++ {
		fam := "mixed"
		if f == nfam-1 {
			fam = "big"
		}
		if f == 1 || (f > 3 && f%4 == 1) {
			fam = "lowentropy"
		}
		for _, bw := range []string{"fresh", "overlay"} {
			for _, opt := range []bool{false, true} {
				for _, comp := range comps {
					add(c03Spec{PairSeed: lib.Mix(seed, 3, uint64(f)), Family: fam, Bowl: bw, Optimized: opt, Comp: comp, Lags: lags, Damages: dmg, MaxK: maxK})
				}
			}
		}
	}
	// a consumer that asks once, then not for a long stretch of the stream, then again (the checkpoint it finally gets
	// pairs a message offset with a source checkpoint that is tens of MiB older)
	add(c03Spec{PairSeed: lib.Mix(seed, 35), Family: "delayed", Bowl: "fresh", Comp: lib.Comp{Algo: "none"}})
	add(c03Spec{PairSeed: lib.Mix(seed, 35), Family: "delayed", Bowl: "overlay", Comp: lib.Comp{Algo: "gzip", Quality: 1}})
	// bounded-progress families, one per (algorithm, quality class)
	sized := []lib.Comp{{Algo: "gzip", Quality: 1}, {Algo: "gzip", Quality: 9}, {Algo: "brotli", Quality: 1}, {Algo: "brotli", Quality: 3}}
	if tier == "thorough" {
		for q := -2; q <= 9; q++ {
			sized = append(sized, lib.Comp{Algo: "gzip", Quality: q})
		}
		sized = append(sized, lib.Comp{Algo: "brotli", Quality: 0}, lib.Comp{Algo: "brotli", Quality: 2})
	}
	for _, comp := range sized {
		add(c03Spec{PairSeed: lib.Mix(seed, 33), Family: "sized-small", Bowl: "fresh", Comp: comp, Sized: true})
	}
	bigq := []int{4}
	if tier == "thorough" {
		bigq = []int{4, 5, 6, 9}
	}
	for _, q := range bigq {
		add(c03Spec{PairSeed: lib.Mix(seed, 34), Family: "sized-big", Bowl: "fresh", Comp: lib.Comp{Algo: "brotli", Quality: q}, Sized: true})
	}
	return cases
}

// c03Consumer is the harness-side SaveConsumer: it records every checkpoint (gob
// encoded on the spot) and drives stop/continue decisions.
type c03Consumer struct {
	should     func(call int) bool
	onSave     func(idx int, c *patcher.Checkpoint, enc []byte) (patcher.AfterSaveAction, error)
	calls      int
	trueSince  int
	maxGap     int
	saves      int
	encodeErrs []string
}

func (c *c03Consumer) ShouldSave() bool {
	c.calls++
	ok := true
	if c.should != nil {
		ok = c.should(c.calls)
	}
	if ok {
		c.trueSince++
	}
	return ok
}

func (c *c03Consumer) Save(cp *patcher.Checkpoint) (patcher.AfterSaveAction, error) {
	if c.trueSince > c.maxGap {
		c.maxGap = c.trueSince
	}
	c.trueSince = 0
	var buf bytes.Buffer
	if err := gob.NewEncoder(&buf).Encode(cp); err != nil {
		c.encodeErrs = append(c.encodeErrs, err.Error())
	}
	idx := c.saves
	c.saves++
	if c.onSave != nil {
		return c.onSave(idx, cp, buf.Bytes())
	}
	return patcher.AfterSaveContinue, nil
}

func decodeCheckpoint(b []byte) (*patcher.Checkpoint, error) {
	cp := &patcher.Checkpoint{}
	if err := gob.NewDecoder(bytes.NewReader(b)).Decode(cp); err != nil {
		return nil, err
	}
	return cp, nil
}

// c03Setup is everything needed to start (or resume) one application.
type c03Setup struct {
	spec   c03Spec
	patch  []byte
	oldDir string // pristine old build (never modified)
	pair   *lib.Pair
	stale  bool // old-build pools hand a just-used reader back at an arbitrary position
	nrun   uint64
}

// newRun creates a brand-new patcher + bowl over workDir. For the fresh bowl workDir is
// the output folder; for the overlay bowl workDir/target holds the old build and
// workDir/stage is the stage folder.
func (su *c03Setup) newRun(workDir string, pool func(lake.Pool) lake.Pool) (patcher.Patcher, bowl.Bowl, lake.Pool, error) {
	p, err := patcher.New(seeksource.FromBytes(su.patch), lib.Quiet())
	if err != nil {
		return nil, nil, nil, fmt.Errorf("patcher.New: %w", err)
	}
	var tp lake.Pool
	var b bowl.Bowl
	if su.spec.Bowl == "fresh" {
		tp = fspool.New(p.GetTargetContainer(), su.oldDir)
		b, err = bowl.NewFreshBowl(bowl.FreshBowlParams{SourceContainer: p.GetSourceContainer(), TargetContainer: p.GetTargetContainer(),
			TargetPool: tp, OutputFolder: filepath.Join(workDir, "out")})
	} else {
		tp = fspool.New(p.GetTargetContainer(), filepath.Join(workDir, "target"))
		b, err = bowl.NewOverlayBowl(bowl.OverlayBowlParams{SourceContainer: p.GetSourceContainer(), TargetContainer: p.GetTargetContainer(),
			OutputFolder: filepath.Join(workDir, "target"), StageFolder: filepath.Join(workDir, "stage")})
	}
	if err != nil {
		return nil, nil, nil, fmt.Errorf("new bowl: %w", err)
	}
	if su.stale {
		su.nrun++
		tp = &lib.StalePool{Inner: tp, Rng: lib.NewRng(lib.Mix(su.spec.PairSeed, 31, su.nrun))}
	}
	if pool != nil {
		tp = pool(tp)
	}
	return p, b, tp, nil
}

func (su *c03Setup) stateDir(workDir string) string {
	if su.spec.Bowl == "fresh" {
		return filepath.Join(workDir, "out")
	}
	return filepath.Join(workDir, "stage")
}
func (su *c03Setup) resultDir(workDir string) string {
	if su.spec.Bowl == "fresh" {
		return filepath.Join(workDir, "out")
	}
	return filepath.Join(workDir, "target")
}

func (su *c03Setup) prepareWork(workDir string) error {
	if su.spec.Bowl == "overlay" {
		return su.pair.Old.Materialize(filepath.Join(workDir, "target"))
	}
	return os.MkdirAll(workDir, 0o755)
}

func isStop(err error) bool {
	return err != nil && (errors.Is(err, patcher.ErrStop) || pkgerrors.Cause(err) == patcher.ErrStop)
}

// physOffset returns (file index in progress, physical offset in the state folder that the
// checkpoint vouches for). ok=false when the checkpoint is between files.
func physOffset(cp *patcher.Checkpoint) (int64, int64, bool) {
	var wc *bowl.WriterCheckpoint
	if cp.RsyncCheckpoint != nil {
		wc = cp.RsyncCheckpoint.WriterCheckpoint
	} else if cp.BsdiffCheckpoint != nil {
		wc = cp.BsdiffCheckpoint.WriterCheckpoint
	}
	if wc == nil {
		return cp.FileIndex, 0, false
	}
	if oc, ok := wc.Data.(*bowl.OverlayEntryWriterCheckpoint); ok {
		return cp.FileIndex, oc.OverlayOffset, true
	}
	return cp.FileIndex, wc.Offset, true
}

// c03Delayed: ShouldSave answers true once, false for `gap` calls, then always true; the run stops at the first
// checkpoint it is given and is resumed from the serialized copy in a brand-new patcher and bowl.
func c03Delayed(su *c03Setup, env *lib.Env, combo string, res *lib.Result) {
	for gi, gap := range []int{3, 6, 9} {
		work := filepath.Join(env.Scratch, fmt.Sprintf("delayed%d", gi))
		if err := su.prepareWork(work); err != nil {
			res.Inconclusive(err.Error())
			return
		}
		p, b, tp, err := su.newRun(work, nil)
		if err != nil {
			res.Violate("setup-error", combo, err.Error())
			return
		}
		var enc []byte
		cons := &c03Consumer{should: func(call int) bool { return call == 1 || call > 1+gap }}
		cons.onSave = func(idx int, cp *patcher.Checkpoint, e []byte) (patcher.AfterSaveAction, error) {
			if cons.calls > 1+gap {
				enc = e
				return patcher.AfterSaveStop, nil
			}
			return patcher.AfterSaveContinue, nil
		}
		p.SetSaveConsumer(cons)
		err = p.Resume(nil, tp, b)
		b.Close()
		if !isStop(err) || enc == nil {
			if err != nil && !isStop(err) {
				res.Violate("uninterrupted-error", combo, fmt.Sprintf("delayed schedule gap=%d: %v", gap, err))
				return
			}
			res.Add("delayed_schedules_without_checkpoint", 1)
			os.RemoveAll(work)
			continue
		}
		cp, derr := decodeCheckpoint(enc)
		if derr != nil {
			res.Violate("checkpoint-not-gob-decodable", combo, derr.Error())
			return
		}
		var srcOff, msgOff int64 = -1, -1
		if cp.MessageCheckpoint != nil {
			msgOff = cp.MessageCheckpoint.Offset
			if cp.MessageCheckpoint.SourceCheckpoint != nil {
				srcOff = cp.MessageCheckpoint.SourceCheckpoint.Offset
			}
		}
		p2, b2, tp2, err := su.newRun(work, nil)
		if err != nil {
			res.Violate("resume-setup-error", combo, err.Error())
			return
		}
		rerr, panicked, stack := lib.Guard(func() error { return p2.Resume(cp, tp2, b2) })
		res.Add("resumes", 1)
		res.Add("resumes_from_a_checkpoint_given_after_a_long_pause", 1)
		res.Max("max_bytes_between_source_checkpoint_and_message_offset", msgOff-srcOff)
		desc := fmt.Sprintf("ShouldSave true at call 1, false for %d calls, then true; checkpoint message offset %d, source checkpoint offset %d", gap, msgOff, srcOff)
		switch {
		case panicked:
			res.Violate("resume-panic", combo, desc, rerr.Error(), stack)
			return
		case rerr != nil:
			res.Violate("resume-error", combo, desc, rerr.Error())
			return
		}
		if err := b2.Commit(); err != nil {
			res.Violate("resume-commit-error", combo, desc, err.Error())
			return
		}
		got, gerr := lib.ReadTree(su.resultDir(work))
		if gerr != nil {
			res.Inconclusive(gerr.Error())
			return
		}
		if ds := lib.DiffBuilds(got, su.pair.New, false); len(ds) > 0 {
			res.Violate("resume-mismatch:"+diffKinds(ds), append([]string{combo, desc}, lib.DiffStrings(ds, 6)...)...)
		}
		res.Feat = append(res.Feat, fmt.Sprintf("%s|delayed-gap=%d", combo, gap))
		os.RemoveAll(work)
	}
}

func c03Run(c lib.Case, env *lib.Env) lib.Result {
	var s c03Spec
	lib.ReadSpec(c, &s)
	res := lib.Result{NonTrivial: true}
	pair := c03Family(s.PairSeed, s.Family)
	oldDir, newDir := filepath.Join(env.Scratch, "old"), filepath.Join(env.Scratch, "new")
	if err := pair.Old.Materialize(oldDir); err != nil {
		res.Inconclusive(err.Error())
		return res
	}
	if err := pair.New.Materialize(newDir); err != nil {
		res.Inconclusive(err.Error())
		return res
	}
	dr, err := lib.DiffDirs(oldDir, newDir, s.Comp, nil, nil, nil)
	if err != nil {
		res.Violate("diff-error", err.Error())
		return res
	}
	patch := dr.Patch
	if s.Optimized {
		var ob bytes.Buffer
		cc := s.Comp
		if err := lib.Optimize(patch, oldDir, newDir, lib.OptParams{Partitions: 2, Comp: &cc}, &ob); err != nil {
			res.Inconclusive("optimizer failed: " + err.Error())
			return res
		}
		patch = ob.Bytes()
	}
	su := &c03Setup{spec: s, patch: patch, oldDir: oldDir, pair: pair, stale: c.ID%2 == 1}
	if su.stale {
		res.Add("combinations_over_stale_position_pools", 1)
	}
	combo := fmt.Sprintf("%s|%s|opt=%v|%s", s.Family, s.Bowl, s.Optimized, s.Comp)
	if s.Family == "delayed" {
		c03Delayed(su, env, combo, &res)
		return res
	}

	// ---- U: uninterrupted always-save run, recording checkpoints and snapshots
	type ck struct {
		enc      []byte
		fileIdx  int64
		off      int64
		midFile  bool
		bsdiff   bool
		snapshot *lib.Build
	}
	var cks []ck
	uDir := filepath.Join(env.Scratch, "u")
	if err := su.prepareWork(uDir); err != nil {
		res.Inconclusive(err.Error())
		return res
	}
	p, b, tp, err := su.newRun(uDir, nil)
	if err != nil {
		res.Violate("setup-error", err.Error())
		return res
	}
	cons := &c03Consumer{}
	cons.onSave = func(idx int, cp *patcher.Checkpoint, enc []byte) (patcher.AfterSaveAction, error) {
		k := ck{enc: enc}
		k.fileIdx, k.off, k.midFile = physOffset(cp)
		k.bsdiff = cp.BsdiffCheckpoint != nil
		if !s.Sized {
			snap, err := lib.ReadTree(su.stateDir(uDir))
			if err != nil {
				return patcher.AfterSaveContinue, err
			}
			k.snapshot = snap
		}
		cks = append(cks, k)
		return patcher.AfterSaveContinue, nil
	}
	p.SetSaveConsumer(cons)
	if err := p.Resume(nil, tp, b); err != nil {
		res.Violate("uninterrupted-error", combo, err.Error())
		return res
	}
	res.Add("checkpoints_offered", int64(len(cks)))
	res.Max("gap_in_ShouldSave_calls", int64(cons.maxGap))
	for _, e := range cons.encodeErrs {
		res.Violate("checkpoint-not-gob-encodable", e)
	}
	res.Feat = append(res.Feat, combo)
	if s.Sized {
		// bounded-progress restatement: an always-save consumer must get >= 1 checkpoint on a purpose-sized family
		res.SetAdd("progress_families", s.Comp.String())
		if len(cks) == 0 {
			res.Violate("no-checkpoint-on-sized-family", combo, fmt.Sprintf("%d ShouldSave calls answered true, 0 checkpoints", cons.calls))
		}
		if c.ID%7 == 0 {
			res.Sample = map[string]interface{}{"combo": combo, "checkpoints": len(cks), "shouldSaveCalls": cons.calls, "patchBytes": len(patch)}
		}
		return res
	}
	if s.Comp.Algo == "none" && cons.maxGap > 2 {
		res.Violate("progress-gap-uncompressed", combo, fmt.Sprintf("a Save arrived only after %d ShouldSave()==true calls", cons.maxGap))
	}
	if err := b.Commit(); err != nil {
		res.Violate("uninterrupted-commit-error", combo, err.Error())
		return res
	}
	ub, _ := lib.ReadTree(su.resultDir(uDir))
	if ds := lib.DiffBuilds(ub, pair.New, false); len(ds) > 0 {
		res.Violate("uninterrupted-mismatch", append([]string{combo}, lib.DiffStrings(ds, 6)...)...)
		return res
	}
	os.RemoveAll(uDir)
	if len(cks) == 0 {
		res.Add("combos_without_checkpoint", 1)
		res.Note = "no checkpoint offered for " + combo
		return res
	}

	// ---- enumerate k (all, or sampled when very many)
	r := lib.NewRng(lib.Mix(s.PairSeed, 3003, uint64(len(cks))))
	ks := make([]int, 0, len(cks))
	if len(cks) <= s.MaxK {
		for k := range cks {
			ks = append(ks, k)
		}
	} else {
		seen := map[int]bool{}
		for k := range cks { // first and last checkpoint of every file
			if k == 0 || k == len(cks)-1 || cks[k].fileIdx != cks[k-1].fileIdx || cks[k].fileIdx != cks[k+1].fileIdx {
				seen[k] = true
			}
		}
		for len(seen) < s.MaxK {
			seen[r.Intn(len(cks))] = true
		}
		for k := range cks {
			if seen[k] {
				ks = append(ks, k)
			}
		}
	}
	files := pair.New.Files()
	_ = files
	resumeN := 0
	runResume := func(k, j int, dmg int, chain bool) {
		cp, err := decodeCheckpoint(cks[k].enc)
		if err != nil {
			res.Violate("checkpoint-not-gob-decodable", combo, err.Error())
			return
		}
		work := filepath.Join(env.Scratch, fmt.Sprintf("w%d", resumeN))
		resumeN++
		defer os.RemoveAll(work)
		if err := su.prepareWork(work); err != nil {
			res.Inconclusive(err.Error())
			return
		}
		state := su.stateDir(work)
		if err := cks[j].snapshot.Materialize(state); err != nil {
			res.Inconclusive(err.Error())
			return
		}
		dmgDesc := c03Damage(r, su, state, cks[k].fileIdx, cks[k].off, dmg)
		depth := 0
		for {
			p, b, tp, err := su.newRun(work, nil)
			if err != nil {
				res.Violate("resume-setup-error", combo, err.Error())
				return
			}
			var next []byte
			if chain && depth < 3 {
				stopAfter := r.Range(1, 4)
				cc := &c03Consumer{should: func(call int) bool { return r.Chance(0.7) }}
				cc.onSave = func(idx int, cp *patcher.Checkpoint, enc []byte) (patcher.AfterSaveAction, error) {
					if idx+1 >= stopAfter {
						next = enc
						return patcher.AfterSaveStop, nil
					}
					return patcher.AfterSaveContinue, nil
				}
				p.SetSaveConsumer(cc)
			}
			err, panicked, stack := lib.Guard(func() error { return p.Resume(cp, tp, b) })
			if panicked {
				res.Violate("resume-panic", combo, err.Error(), stack)
				return
			}
			res.Add("resumes", 1)
			if isStop(err) && next != nil {
				cp, err = decodeCheckpoint(next)
				if err != nil {
					res.Violate("checkpoint-not-gob-decodable", combo, err.Error())
					return
				}
				depth++
				res.Add("chained_interruptions", 1)
				b.Close()
				continue
			}
			if err != nil {
				res.Violate("resume-error", combo, fmt.Sprintf("k=%d j=%d damage=%s depth=%d", k, j, dmgDesc, depth), err.Error())
				return
			}
			if err := b.Commit(); err != nil {
				res.Violate("resume-commit-error", combo, fmt.Sprintf("k=%d j=%d damage=%s", k, j, dmgDesc), err.Error())
				return
			}
			break
		}
		got, rerr := lib.ReadTree(su.resultDir(work))
		if rerr != nil {
			res.Inconclusive(rerr.Error())
			return
		}
		if ds := lib.DiffBuilds(got, pair.New, false); len(ds) > 0 {
			res.Violate("resume-mismatch:"+diffKinds(ds), append([]string{combo, fmt.Sprintf("k=%d j=%d of %d damage=%s depth=%d", k, j, len(cks), dmgDesc, depth)}, lib.DiffStrings(ds, 6)...)...)
		}
		kclass := "first-of-file"
		if k > 0 && cks[k-1].fileIdx == cks[k].fileIdx {
			kclass = "mid-file"
			if k == len(cks)-1 || cks[k+1].fileIdx != cks[k].fileIdx {
				kclass = "last-of-file"
			}
		}
		if cks[k].bsdiff {
			kclass += "+bsdiff"
		}
		if j > k {
			res.Add("resumes_with_disk_ahead_of_checkpoint", 1)
		}
		res.Feat = append(res.Feat, fmt.Sprintf("%s|%s|lag=%d|%s|chain=%v", combo, kclass, j-k, dmgDesc, chain))
	}
	for _, k := range ks {
		for _, lag := range s.Lags {
			j := k + lag
			if lag < 0 { // to the next file boundary
				j = k
				for j+1 < len(cks) && cks[j+1].fileIdx == cks[k].fileIdx {
					j++
				}
				if j+1 < len(cks) {
					j++
				}
			}
			if j >= len(cks) {
				j = len(cks) - 1
			}
			for d := 0; d < s.Damages; d++ {
				dmg := d
				if s.Damages < 5 && d > 0 {
					dmg = r.Range(1, 4)
				}
				runResume(k, j, dmg, (k+d)%5 == 4)
			}
		}
	}

	// ---- aborted runs: an injected read error on the old build stops the patcher mid-operation
	nAbort := 2
	if env.Tier == "thorough" {
		nAbort = 6
	}
	for a := 0; a < nAbort; a++ {
		work := filepath.Join(env.Scratch, fmt.Sprintf("abort%d", a))
		if err := su.prepareWork(work); err != nil {
			break
		}
		failAt := int64(r.Range(2, 60))
		p, b, tp, err := su.newRun(work, func(in lake.Pool) lake.Pool { return &lib.FaultPool{Inner: in, FailAt: failAt} })
		if err != nil {
			break
		}
		var got [][]byte
		cc := &c03Consumer{}
		cc.onSave = func(idx int, cp *patcher.Checkpoint, enc []byte) (patcher.AfterSaveAction, error) {
			got = append(got, enc)
			return patcher.AfterSaveContinue, nil
		}
		p.SetSaveConsumer(cc)
		aerr := p.Resume(nil, tp, b)
		b.Close()
		if aerr == nil || len(got) == 0 {
			res.Add("aborts_not_reached", 1)
			os.RemoveAll(work)
			continue
		}
		res.Add("aborted_runs", 1)
		k := len(got) - 1
		if a%2 == 1 {
			k = r.Intn(len(got))
		}
		cp, derr := decodeCheckpoint(got[k])
		if derr != nil {
			res.Violate("checkpoint-not-gob-decodable", combo, derr.Error())
			continue
		}
		p2, b2, tp2, err := su.newRun(work, nil)
		if err != nil {
			res.Violate("resume-setup-error", combo, err.Error())
			continue
		}
		if err := p2.Resume(cp, tp2, b2); err != nil {
			res.Violate("resume-error", combo, fmt.Sprintf("after abort at read %d, k=%d of %d", failAt, k, len(got)), err.Error())
			continue
		}
		if err := b2.Commit(); err != nil {
			res.Violate("resume-commit-error", combo, fmt.Sprintf("after abort at read %d", failAt), err.Error())
			continue
		}
		res.Add("resumes", 1)
		gotB, _ := lib.ReadTree(su.resultDir(work))
		if ds := lib.DiffBuilds(gotB, pair.New, false); len(ds) > 0 {
			res.Violate("resume-mismatch:"+diffKinds(ds), append([]string{combo, fmt.Sprintf("after abort at read %d, k=%d of %d", failAt, k, len(got))}, lib.DiffStrings(ds, 6)...)...)
		}
		res.Feat = append(res.Feat, fmt.Sprintf("%s|abort-mid-op|k=last-%d", combo, len(got)-1-k))
		os.RemoveAll(work)
	}
	res.SetAdd("combos_resumed", fmt.Sprintf("%s|opt=%v|%s", s.Bowl, s.Optimized, s.Comp.Algo))
	if c.ID < 3 {
		res.Sample = map[string]interface{}{"combo": combo, "checkpoints_offered": len(cks), "k_enumerated": len(ks), "lags": s.Lags,
			"damages_per_kj": s.Damages, "resumes": res.Obs["resumes"], "max_gap_ShouldSave": cons.maxGap}
	}
	return res
}

// c03Damage applies forward-only damage to the state folder: bytes written after
// checkpoint k may be lost, bytes the checkpoint vouches for may not. Returns a label.
func c03Damage(r *lib.Rng, su *c03Setup, state string, fileIdx, off int64, variant int) string {
	if variant == 0 {
		return "none"
	}
	files := su.pair.New.Files()
	// container order == sorted path order only per directory walk; resolve through a walk of the new dir
	nc, err := lib.Walk(filepath.Join(filepath.Dir(su.oldDir), "new"))
	if err != nil || len(nc.Files) != len(files) {
		return "none(walk failed)"
	}
	label := ""
	for i, f := range nc.Files {
		full := filepath.Join(state, filepath.FromSlash(f.Path))
		st, err := os.Lstat(full)
		if err != nil || !st.Mode().IsRegular() {
			continue
		}
		size := st.Size()
		switch {
		case int64(i) < fileIdx:
			// complete before the checkpoint: must survive
		case int64(i) == fileIdx:
			if size <= off {
				continue
			}
			var l int64
			switch variant {
			case 1:
				l = off
			case 2:
				l = off + 1
			case 3:
				l = off + (size-off)/2
			default:
				l = size - 1
			}
			if l > size {
				l = size
			}
			if su.spec.Bowl == "fresh" && r.Bool() {
				zeroFrom(full, l, size)
				label += "inprogress-zero"
			} else {
				os.Truncate(full, l)
				label += "inprogress-trunc"
			}
		default:
			switch (variant + i) % 4 {
			case 0:
				os.Remove(full)
				label += "+later-removed"
			case 1:
				os.Truncate(full, 0)
				label += "+later-empty"
			case 2:
				os.Truncate(full, size/2)
				label += "+later-half"
			}
		}
	}
	if label == "" {
		return "none(nothing ahead)"
	}
	if len(label) > 60 {
		label = label[:60]
	}
	return label
}

func zeroFrom(path string, from, to int64) {
	f, err := os.OpenFile(path, os.O_WRONLY, 0)
	if err != nil {
		return
	}
	defer f.Close()
	z := make([]byte, to-from)
	f.WriteAt(z, from)
}

func init() {
	lib.Register(&lib.Property{
		ID:          "C03",
		Level:       "fault_enumeration",
		Rule:        "per (patch family, bowl, plain/optimized, compression): one uninterrupted always-save run records every checkpoint (gob-encoded at Save time) and snapshots the on-disk state there; then EVERY checkpoint index k (sampled above MaxK) x lag (disk state taken at checkpoint k+lag) x forward-only damage variant (in-progress file truncated / zero-filled at {off_k, off_k+1, midpoint, end-1}, later files removed / emptied / halved) is resumed in a brand-new patcher and bowl from the gob-decoded checkpoint, committed and compared with the new build; plus runs aborted mid-operation by an injected read error on the old build and chains of up to 3 further interruptions with a random save schedule; family `delayed` (41 MiB fresh file first): ShouldSave true once, false for 3/6/9 calls, then true, stop at the first checkpoint given, resume in a new patcher and bowl; odd combinations read the old build through a pool that hands a just-used reader back at an arbitrary position. distinct = distinct (combination, k-class, lag, damage label, chain) tuples",
		Assumptions: []string{"crash = loss of any suffix of the bytes written after the checkpoint (no reordering inside the kernel); fsync does what it says", "crash points lie in the patching phase, the latest being 'patching finished, Commit not started'", "the snapshot taken inside Save equals the state a stop at that checkpoint leaves (same process, deterministic patcher)"},
		Cases:       c03Cases,
		Run:         c03Run,
		Batch:       1,
		CaseBudget:  600 * 1e9,
		Post: func(rs []lib.Result, ev *lib.Evidence) []string {
			var out []string
			sets, _ := ev.Coverage["observed_sets"].(map[string]int)
			want := 2 * 2 * 3
			if sets["distinct:combos_resumed"] < want {
				out = append(out, fmt.Sprintf("only %d of %d (bowl, kind, algorithm) combinations had a checkpoint resumed", sets["distinct:combos_resumed"], want))
			}
			return out
		},
	})
}
