package props

import (
	"bytes"
	"fmt"
	"github.com/itchio/lake"
	"github.com/itchio/lake/tlc"
	"os"
	"path/filepath"
	"sort"
	"strings"
	"syscall"

	"verif/lib"
)

// C02 — in-place apply equals fresh apply; old build untouched until commit (DESIGN §5 C02).

type c02Spec struct {
	PairSeed  uint64      `json:"pairSeed"`
	Opts      lib.GenOpts `json:"opts"`
	Optimized bool        `json:"optimized"`
	Comp      lib.Comp    `json:"comp"`
	Repeats   int         `json:"repeats"`
}

func c02Cases(tier string, seed uint64, flavor string) []lib.Case {
	n, rep := 200, 3
	if tier == "thorough" {
		n, rep = 10000, 8
	}
	if flavor != "plain" {
		// children of this flavour put the stage folder on ANOTHER file system than the build (the system temp
		// directory instead of the tmpfs scratch) when there is one: renames from the stage folder fail with EXDEV and
		// the commit phase takes its copy + remove fallback
		n = n / 2
	}
	comps := lib.FastComps()
	var cases []lib.Case
	for i := 0; i < n; i++ {
		o := lib.GenOpts{PathFocus: i%4 != 3, KindSwaps: i%5 == 0, MinFiles: 2, MaxFiles: 7}
		if !o.PathFocus {
			o.MaxFile = 5 * lib.BS
		}
		for _, opt := range []bool{false, true} {
			s := c02Spec{PairSeed: lib.Mix(seed, 2, uint64(i)), Opts: o, Optimized: opt, Comp: comps[i%len(comps)], Repeats: rep}
			cases = append(cases, lib.Case{Seed: s.PairSeed, Kind: "inplace", Spec: lib.MustSpec(s)})
		}
	}
	for k, o := range []lib.GenOpts{{EmptyOld: true, PathFocus: true}, {EmptyNew: true, PathFocus: true}, {EmptyOld: true, EmptyNew: true}} {
		s := c02Spec{PairSeed: lib.Mix(seed, 2002, uint64(k)), Opts: o, Comp: lib.Comp{Algo: "none"}, Repeats: rep}
		cases = append(cases, lib.Case{Seed: s.PairSeed, Kind: "empty-side", Spec: lib.MustSpec(s)})
	}
	// one deterministic case per kind-swap class (alone and combined with a rename source),
	// so that every known finding of this class is observed on every run
	for ks := 1; ks <= 11; ks++ {
		for _, ren := range []bool{false, true} {
			o := lib.GenOpts{PathFocus: true, MinFiles: 2, MaxFiles: 3, ForceKindSwap: ks, ForceRename: ren}
			s := c02Spec{PairSeed: lib.Mix(seed, 22, uint64(ks)), Opts: o, Comp: lib.Comp{Algo: "none"}, Repeats: rep}
			cases = append(cases, lib.Case{Seed: s.PairSeed, Kind: "kindswap", Spec: lib.MustSpec(s)})
		}
	}
	return cases
}

// captureStdout runs f with os.Stdout redirected to a file and returns what was printed.
func captureStdout(dir string, f func() error) (string, error) {
	tmp, err := os.CreateTemp(dir, "stdout")
	if err != nil {
		return "", f()
	}
	old := os.Stdout
	os.Stdout = tmp
	ferr := f()
	os.Stdout = old
	tmp.Close()
	b, _ := os.ReadFile(tmp.Name())
	os.Remove(tmp.Name())
	return string(b), ferr
}

func c02Run(c lib.Case, env *lib.Env) lib.Result {
	var s c02Spec
	lib.ReadSpec(c, &s)
	res := lib.Result{}
	pair := lib.GenPair(s.PairSeed, s.Opts)
	res.NonTrivial = pair.NonTrivial()
	if c.ID%3 == 1 {
		// the pools given to the patcher and the optimizer hand a just-used reader back at an arbitrary position
		lib.TargetPoolWrap = func(p lake.Pool) lake.Pool {
			return &lib.StalePool{Inner: p, Rng: lib.NewRng(lib.Mix(s.PairSeed, 21))}
		}
		defer func() { lib.TargetPoolWrap = nil }()
		res.Add("cases_over_stale_position_pools", 1)
	}
	if c.ID%4 == 2 || c.ID%8 == 7 {
		// the old build's container lists its directories and links in another order than a directory walk does
		// (children first, or any order: what a container read from a zip looks like); files keep their order
		shuffle := c.ID%8 == 7
		lib.OldContainerTweak = func(oc *tlc.Container) {
			r := lib.NewRng(lib.Mix(s.PairSeed, 22))
			for i := len(oc.Dirs) - 1; i > 0; i-- {
				j := len(oc.Dirs) - 1 - i
				if shuffle {
					j = r.Intn(i + 1)
				} else if j >= i {
					break
				}
				oc.Dirs[i], oc.Dirs[j] = oc.Dirs[j], oc.Dirs[i]
			}
			if shuffle {
				for i := len(oc.Symlinks) - 1; i > 0; i-- {
					j := r.Intn(i + 1)
					oc.Symlinks[i], oc.Symlinks[j] = oc.Symlinks[j], oc.Symlinks[i]
				}
			}
		}
		defer func() { lib.OldContainerTweak = nil }()
		res.Add("cases_with_old_container_in_non_walk_order", 1)
	}
	oldDir, newDir := filepath.Join(env.Scratch, "old"), filepath.Join(env.Scratch, "new")
	if err := pair.Old.Materialize(oldDir); err != nil {
		res.Inconclusive("materialize: " + err.Error())
		return res
	}
	if err := pair.New.Materialize(newDir); err != nil {
		res.Inconclusive("materialize: " + err.Error())
		return res
	}
	dr, err := lib.DiffDirs(oldDir, newDir, s.Comp, nil, nil, nil)
	if err != nil {
		res.Violate("diff-error", err.Error())
		return res
	}
	patch := dr.Patch
	if s.Optimized {
		var ob bytes.Buffer
		cc := s.Comp
		err, panicked, stack := lib.Guard(func() error {
			return lib.Optimize(patch, oldDir, newDir, lib.OptParams{Partitions: 2, Comp: &cc}, &ob)
		})
		if panicked || err != nil {
			// the optimizer's own failures belong to C07; here they only mean this case cannot run
			res.Note = "optimizer failed: " + err.Error() + firstLine(stack)
			res.Add("optimizer_failed", 1)
			return res
		}
		patch = ob.Bytes()
	}
	// fresh application of the same patch: third leg of the three-way agreement
	fresh := filepath.Join(env.Scratch, "fresh")
	if err := lib.ApplyFresh(patch, oldDir, fresh); err != nil {
		res.Violate("fresh-apply-error", err.Error())
		return res
	}
	fb, _ := lib.ReadTree(fresh)
	if ds := lib.DiffBuilds(fb, pair.New, false); len(ds) > 0 {
		res.Violate("fresh-mismatch", lib.DiffStrings(ds, 6)...)
		return res
	}
	kindChanged := kindChanges(pair)
	seqs := map[string]bool{}
	for rep := 0; rep < s.Repeats; rep++ {
		dir := filepath.Join(env.Scratch, fmt.Sprintf("inplace%d", rep))
		stage := filepath.Join(env.Scratch, fmt.Sprintf("stage%d", rep))
		if os.Getenv("VERIF_STAGE_OTHER_FS") == "1" {
			if other, ok := otherFSDir(env.Scratch); ok {
				stage = filepath.Join(other, fmt.Sprintf("stage%d", rep))
				defer os.RemoveAll(other)
				res.Add("commits_with_stage_on_another_file_system", 1)
			} else {
				res.Add("no_other_file_system_available", 1)
			}
		}
		if err := pair.Old.Materialize(dir); err != nil {
			res.Inconclusive("materialize: " + err.Error())
			return res
		}
		before, _ := lib.TreeStat(dir)
		var preDiff []string
		out, aerr := captureStdout(env.Scratch, func() error {
			e, panicked, stack := lib.Guard(func() error {
				return lib.OverlayApply(patch, dir, stage, func() error {
					pre, err := lib.TreeStat(dir)
					if err != nil {
						return err
					}
					preDiff = lib.DiffStat(before, pre)
					return nil
				})
			})
			if panicked {
				return fmt.Errorf("%v\n%s", e, stack)
			}
			return e
		})
		res.Add("commits", 1)
		if len(preDiff) > 0 {
			res.Violate("old-build-modified-before-commit", preDiff...)
		}
		var seq []string
		for _, l := range strings.Split(out, "\n") {
			if i := strings.Index(l, "[overlayBowl] "); i >= 0 {
				l = l[i+14:]
				if strings.HasPrefix(l, "mv ") || strings.HasPrefix(l, "cp ") || strings.HasPrefix(l, "applying ") || strings.HasPrefix(l, "ghost: ") {
					seq = append(seq, strings.ReplaceAll(l, env.Scratch, ""))
				}
			}
		}
		res.Add("commit_ops", int64(len(seq)))
		norm := strings.ReplaceAll(strings.Join(seq, ";"), fmt.Sprintf("/inplace%d/", rep), "/D/")
		seqs[strings.ReplaceAll(norm, fmt.Sprintf("/stage%d/", rep), "/S/")] = true
		if aerr != nil {
			key := "inplace-error"
			if k := c02Classify(kindChanged, nil, aerr.Error()); k != "" {
				key = k
			}
			res.Violate(key, aerr.Error())
			continue
		}
		got, rerr := lib.ReadTree(dir)
		if rerr != nil {
			res.Inconclusive("read tree: " + rerr.Error())
			continue
		}
		if ds := lib.DiffBuilds(got, pair.New, false); len(ds) > 0 {
			key := "inplace-mismatch:" + diffKinds(ds)
			if k := c02Classify(kindChanged, ds, ""); k != "" {
				key = k
			}
			res.Violate(key, lib.DiffStrings(ds, 8)...)
		}
		if _, err := os.Stat(stage); err == nil {
			// stage folder is the caller's to remove; just make sure it was outside the output dir
		}
		res.Add("bytes_compared", pair.New.TotalSize())
	}
	res.Max("commit_sequences_per_case", int64(len(seqs)))
	if len(seqs) > 1 {
		res.Add("cases_with_several_commit_orders", 1)
	}
	res.Add("distinct_commit_sequences", int64(len(seqs)))
	kind := "plain"
	if s.Optimized {
		kind = "optimized"
	}
	res.Feat = []string{pair.Signature() + "|" + kind}
	for _, f := range pair.FeatList() {
		res.SetAdd("relations", f)
	}
	if c.ID < 4 {
		res.Sample = map[string]interface{}{"pairSeed": s.PairSeed, "relations": pair.FeatList(), "optimized": s.Optimized,
			"comp": s.Comp.String(), "repeats": s.Repeats, "distinct_commit_sequences": len(seqs)}
	}
	return res
}

// otherFSDir returns a fresh directory on a file system different from the one holding dir, if the system temp
// directory is on one.
func otherFSDir(dir string) (string, bool) {
	var a, b syscall.Stat_t
	if syscall.Stat(dir, &a) != nil || syscall.Stat(os.TempDir(), &b) != nil || a.Dev == b.Dev {
		return "", false
	}
	d, err := os.MkdirTemp(os.TempDir(), "verif-c02-stage-")
	if err != nil {
		return "", false
	}
	return d, true
}

func firstLine(s string) string {
	if i := strings.Index(s, "\n"); i >= 0 {
		return s[:i]
	}
	return s
}

// kindChange describes one path whose kind differs between old and new, together with
// every path a failure there can legitimately spill onto.
type kindChange struct {
	Path, What string
	renameDst  map[string]bool // new files whose content equals an old file at/below Path
	linkDest   string          // resolved destination when the new entry is a symlink
}

func kindChanges(p *lib.Pair) []kindChange {
	var out []kindChange
	for path, o := range p.Old.E {
		n, ok := p.New.E[path]
		if !ok || n.Kind == o.Kind {
			continue
		}
		okind := o.Kind.String()
		if o.Kind == lib.KDir {
			empty := true
			for op := range p.Old.E {
				if strings.HasPrefix(op, path+"/") {
					empty = false
				}
			}
			if empty {
				okind = "emptydir" // an empty directory is replaced without trouble: never explained by a finding about non-empty ones
			}
		}
		kc := kindChange{Path: path, What: okind + "->" + n.Kind.String(), renameDst: map[string]bool{}}
		for op, oe := range p.Old.E {
			if oe.Kind != lib.KFile || !(op == path || strings.HasPrefix(op, path+"/")) {
				continue
			}
			for np, ne := range p.New.E {
				if ne.Kind == lib.KFile && np != op && bytes.Equal(ne.Data, oe.Data) {
					kc.renameDst[np] = true
				}
			}
		}
		if n.Kind == lib.KSymlink {
			kc.linkDest = filepath.ToSlash(filepath.Join(filepath.Dir(path), n.Dest))
		}
		out = append(out, kc)
	}
	return out
}

// c02Classify maps a failure to a known-finding key, but only when every discrepancy
// lies at/above/below a path that changes kind between the builds, is the destination
// of a rename whose source is at/below such a path, or lies below the directory a
// kind-changed symlink now points to. Anything else stays an ordinary violation.
func c02Classify(kcs []kindChange, ds []lib.TreeDiff, errText string) string {
	if len(kcs) == 0 {
		return ""
	}
	if errText != "" {
		for _, kc := range kcs {
			if strings.Contains(errText, "/"+kc.Path+":") || strings.Contains(errText, "/"+kc.Path+"/") || strings.HasSuffix(errText, "/"+kc.Path) {
				return "kindswap:" + kc.What + ":commit-error"
			}
		}
		return ""
	}
	keys := map[string]bool{}
	for _, d := range ds {
		hit := ""
		for _, kc := range kcs {
			p, k := d.Path, kc.Path
			switch {
			case p == k || strings.HasPrefix(p, k+"/") || strings.HasPrefix(k, p+"/"):
				hit = "kindswap:" + kc.What
			case kc.renameDst[p]:
				hit = "kindswap:" + kc.What + "+renamesrc"
			case kc.linkDest != "" && (p == kc.linkDest || strings.HasPrefix(p, kc.linkDest+"/")):
				hit = "kindswap:" + kc.What + "+through-link"
			}
			if hit != "" {
				break
			}
		}
		if hit == "" {
			return ""
		}
		keys[hit] = true
	}
	var ks []string
	for k := range keys {
		ks = append(ks, k)
	}
	sort.Strings(ks)
	// the most specific label wins; mixed kinds of swap in one case stay unexplained
	base := ""
	for _, k := range ks {
		b := strings.SplitN(k, "+", 2)[0]
		if base != "" && b != base {
			return ""
		}
		base = b
	}
	return ks[len(ks)-1] + ":wrong-result"
}

func init() {
	lib.Register(&lib.Property{
		ID:          "C02",
		Level:       "exploration",
		Rule:        "three of every eight cases sign and diff against an old container whose directories are listed children-first or in a seeded random order (links shuffled), as a container not produced by a directory walk may be; pairs weighted to path-level relations (rename, swap, chain, duplicate with/without original, patched+rename-source, grow/shrink/empty, deleted dirs, symlinks incl. destinations that change only in spelling, kind swaps incl. a symlink that becomes a regular copy of an old file); plain and optimized patch; in a third of the cases the pools given to patcher and optimizer hand a just-used reader back at an arbitrary position; each applied in place through the overlay bowl R times from byte-identical starting states (Go randomises map iteration per range, repetition is the only lever on commit order; the mv/cp/overlay/ghost sequence of every commit is parsed from BOWL_OVERLAY_VERBOSE output). Oracle: inode/mtime/size/checksum snapshot of the directory before Resume == snapshot right before Commit; tree after Commit == new build == fresh application. distinct = distinct (relation-set signature, patch kind) with >=1 non-'unchanged' relation",
		Assumptions: []string{"tmpfs/ext4 nanosecond mtimes and stable inodes", "stage folder is outside the output directory", "map-order exploration is by repetition only"},
		Cases:       c02Cases,
		Run:         c02Run,
		Batch:       10,
		ChildEnv:    []string{"BOWL_OVERLAY_VERBOSE=1"},
		Flavors:     func(tier string) []string { return []string{"plain", "plain:VERIF_STAGE_OTHER_FS=1"} },
	})
}
