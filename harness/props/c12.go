package props

import (
	"bytes"
	"fmt"
	"io"
	"runtime"
	"strings"
	"sync"
	"time"

	"github.com/golang/protobuf/proto"
	"github.com/itchio/wharf/bsdiff"
	"github.com/itchio/wharf/bsdiff/lrufile"
	"verif/lib"
)

// C12 — a bsdiff series applied to the old file yields the new file (DESIGN §5 C12).

type c12Spec struct {
	Mode string `json:"mode"` // exh | rand | lru
	// exh
	Alpha  int   `json:"alpha,omitempty"`
	MaxLen int   `json:"maxLen,omitempty"`
	Parts  []int `json:"parts,omitempty"`
	Shard  int   `json:"shard,omitempty"`
	Shards int   `json:"shards,omitempty"`
	// rand
	Seed  uint64 `json:"seed,omitempty"`
	Shape string `json:"shape,omitempty"`
	P     int    `json:"p,omitempty"`
	Procs int    `json:"procs,omitempty"`
	Sched string `json:"sched,omitempty"` // none | perturb | reverse
}

var c12Shapes = []string{"ctx-reuse", "shuffled-pieces", "small-alphabet", "dupseg", "phase-shift", "edited", "periodic", "random", "reversed", "new<<old", "old<<new", "new-empty", "old-empty", "old<parts", "new<parts", "big-edited"}

func c12Cases(tier string, seed uint64, flavor string) []lib.Case {
	var cases []lib.Case
	if flavor == "plain" {
		parts := []int{0, 1, 2, 3, 5, 8, 16}
		if tier == "thorough" {
			parts = nil
			for p := 0; p <= 16; p++ {
				parts = append(parts, p)
			}
		}
		shards := 16
		for _, sp := range [][2]int{{2, 6}, {3, 4}} {
			for sh := 0; sh < shards; sh++ {
				cases = append(cases, lib.Case{Kind: fmt.Sprintf("exh:a%d", sp[0]), Spec: lib.MustSpec(c12Spec{Mode: "exh", Alpha: sp[0], MaxLen: sp[1], Parts: parts, Shard: sh, Shards: shards})})
			}
		}
		if tier == "thorough" {
			for sh := 0; sh < 32; sh++ {
				cases = append(cases, lib.Case{Kind: "exh:a3-len5", Spec: lib.MustSpec(c12Spec{Mode: "exh", Alpha: 3, MaxLen: 5, Parts: []int{0, 1, 2, 3, 5, 16}, Shard: sh, Shards: 32})})
			}
			for sh := 0; sh < 64; sh++ {
				cases = append(cases, lib.Case{Kind: "exh:a2-len8", Spec: lib.MustSpec(c12Spec{Mode: "exh", Alpha: 2, MaxLen: 8, Parts: []int{0, 1, 2, 3, 4, 7, 16}, Shard: sh, Shards: 64})})
			}
		}
	}
	nrand, nlru := 150, 300
	if tier == "thorough" {
		nrand, nlru = 6000, 100000
	}
	if flavor == "race" {
		nrand, nlru = nrand/5, 0
	}
	for i := 0; i < nrand; i++ {
		sched := []string{"none", "perturb", "reverse"}[i%3]
		s := c12Spec{Mode: "rand", Seed: lib.Mix(seed, 12, uint64(i)), Shape: c12Shapes[i%len(c12Shapes)], P: (i * 7) % 17,
			Procs: []int{1, 2, 16}[(i/3)%3], Sched: sched}
		cases = append(cases, lib.Case{Seed: s.Seed, Kind: "rand:" + s.Shape, Spec: lib.MustSpec(s)})
	}
	for i := 0; i < nlru; i += 50 {
		cases = append(cases, lib.Case{Kind: "lru", Seed: lib.Mix(seed, 120, uint64(i)), Spec: lib.MustSpec(c12Spec{Mode: "lru", Seed: lib.Mix(seed, 120, uint64(i))})})
	}
	return cases
}

// refApplyBsdiff is the reference applier: new = ⨁ (old[pos:pos+|add|] + add) ‖ copy ; pos += |add| + seek.
// Returns the output, the old-offset before each control, the output length before each control.
func refApplyBsdiff(old []byte, ctrls []*bsdiff.Control) (out []byte, oldOffs []int64, outOffs []int64, err error) {
	pos := int64(0)
	for i, c := range ctrls {
		oldOffs = append(oldOffs, pos)
		outOffs = append(outOffs, int64(len(out)))
		if c.Eof {
			if i != len(ctrls)-1 {
				return out, oldOffs, outOffs, fmt.Errorf("Eof control at %d of %d", i, len(ctrls))
			}
			return out, oldOffs, outOffs, nil
		}
		if pos < 0 || pos+int64(len(c.Add)) > int64(len(old)) {
			return out, oldOffs, outOffs, fmt.Errorf("control %d adds %d bytes at old offset %d, old has %d", i, len(c.Add), pos, len(old))
		}
		for k, a := range c.Add {
			out = append(out, old[pos+int64(k)]+a)
		}
		out = append(out, c.Copy...)
		pos += int64(len(c.Add)) + c.Seek
	}
	return out, oldOffs, outOffs, fmt.Errorf("series has no Eof control")
}

type c12Monitor struct {
	dctx *bsdiff.DiffContext
	pctx *bsdiff.PatchContext
}

// check runs the real differ on (old,new) and every oracle; returns key/detail or "".
func (m *c12Monitor) check(old, nw []byte, partitions int, deep bool) (string, string, int) {
	m.dctx.Partitions = partitions
	var ctrls []*bsdiff.Control
	var derr error
	done := make(chan struct{})
	go func() {
		defer close(done)
		derr = m.dctx.Do(bytes.NewReader(old), bytes.NewReader(nw), func(msg proto.Message) error {
			c, ok := msg.(*bsdiff.Control)
			if !ok {
				return fmt.Errorf("unexpected message type %T", msg)
			}
			cc := &bsdiff.Control{Add: append([]byte(nil), c.Add...), Copy: append([]byte(nil), c.Copy...), Seek: c.Seek, Eof: c.Eof}
			ctrls = append(ctrls, cc)
			return nil
		}, lib.Quiet())
	}()
	select {
	case <-done:
	case <-time.After(120 * time.Second):
		return "differ-does-not-terminate", fmt.Sprintf("Do still running after 120s; goroutines:\n%s", lib.WharfGoroutines()), 0
	}
	if derr != nil {
		return "differ-error", derr.Error(), 0
	}
	if len(ctrls) == 0 || !ctrls[len(ctrls)-1].Eof {
		return "no-eof-control", fmt.Sprintf("%d controls, last is not Eof", len(ctrls)), 0
	}
	total := 0
	for i, c := range ctrls {
		if c.Eof && i != len(ctrls)-1 {
			return "early-eof-control", fmt.Sprintf("control %d of %d has Eof", i, len(ctrls)), 0
		}
		total += len(c.Add) + len(c.Copy)
	}
	if total != len(nw) {
		return "length-accounting", fmt.Sprintf("sum(|add|+|copy|) = %d, |new| = %d", total, len(nw)), 0
	}
	out, oldOffs, outOffs, err := refApplyBsdiff(old, ctrls)
	if err != nil {
		return "reference-apply-error", err.Error(), 0
	}
	if !bytes.Equal(out, nw) {
		return "reference-apply-mismatch", fmt.Sprintf("first diff at %d of %d", firstDiffAt(out, nw), len(nw)), 0
	}
	// the real patcher path (through lrufile)
	i := 0
	var pout bytes.Buffer
	perr := m.pctx.Patch(bytes.NewReader(old), &pout, int64(len(nw)), func(msg proto.Message) error {
		if i >= len(ctrls) {
			return io.EOF
		}
		c := msg.(*bsdiff.Control)
		*c = bsdiff.Control{Add: ctrls[i].Add, Copy: ctrls[i].Copy, Seek: ctrls[i].Seek, Eof: ctrls[i].Eof}
		i++
		return nil
	})
	if perr != nil {
		return "patch-error", perr.Error(), 0
	}
	if !bytes.Equal(pout.Bytes(), nw) {
		return "patch-mismatch", fmt.Sprintf("PatchContext.Patch: first diff at %d of %d", firstDiffAt(pout.Bytes(), nw), len(nw)), 0
	}
	// resume in the middle from the saved old offset
	resumes := 0
	if deep {
		step := 1
		if len(ctrls) > 64 {
			step = len(ctrls) / 16
		}
		for j := 0; j < len(ctrls); j += step {
			var rout bytes.Buffer
			ipc, err := m.pctx.NewIndividualPatchContext(bytes.NewReader(old), oldOffs[j], &rout)
			if err != nil {
				return "resume-error", err.Error(), resumes
			}
			for _, c := range ctrls[j:] {
				if c.Eof {
					break
				}
				if err := ipc.Apply(c); err != nil {
					return "resume-error", fmt.Sprintf("from control %d: %v", j, err), resumes
				}
			}
			if !bytes.Equal(rout.Bytes(), nw[outOffs[j]:]) {
				return "resume-mismatch", fmt.Sprintf("resuming at control %d (old offset %d) gives %d bytes, want new[%d:] (%d bytes), first diff at %d",
					j, oldOffs[j], rout.Len(), outOffs[j], len(nw)-int(outOffs[j]), firstDiffAt(rout.Bytes(), nw[outOffs[j]:])), resumes
			}
			resumes++
		}
	}
	return "", "", resumes + len(ctrls)*0
}

func c12Exh(s c12Spec, res *lib.Result) {
	strs := allStrings(s.Alpha, s.MaxLen)
	m := &c12Monitor{dctx: &bsdiff.DiffContext{}, pctx: bsdiff.NewPatchContext()}
	var execs, nontrivial, resumes int64
	n := 0
	for oi, old := range strs {
		for _, nw := range strs {
			n++
			if n%s.Shards != s.Shard {
				continue
			}
			for _, p := range s.Parts {
				key, detail, rs := m.check(old, nw, p, (oi+len(nw))%3 == 0)
				execs++
				resumes += int64(rs)
				if key != "" {
					res.Violate(key, fmt.Sprintf("old=%q new=%q partitions=%d", old, nw, p), detail)
					if len(res.Violations) > 5 {
						res.Add("executions", execs)
						return
					}
					continue
				}
				if len(old) > 0 && len(nw) > 0 && !bytes.Equal(old, nw) {
					nontrivial++
				}
			}
		}
	}
	res.Add("executions", execs)
	res.Add("exhaustive_executions", execs)
	res.Add("distinct_nontrivial_executions", nontrivial)
	res.Add("midseries_resumes", resumes)
}

// c12Sched installs a schedule controller on the bsdiff hooks.
type c12Sched struct {
	mode  string
	mu    sync.Mutex
	rng   *lib.Rng
	sig   []string
	ended map[int64]bool // blocks whose worker finished
	cond  *sync.Cond
	total int64
}

func (sc *c12Sched) Hook(point string, a, b int64) {
	sc.mu.Lock()
	if len(sc.sig) < 400 {
		sc.sig = append(sc.sig, fmt.Sprintf("%s:%d", strings.TrimPrefix(point, "bsdiff-"), b))
	}
	act := sc.rng.Intn(10)
	sc.mu.Unlock()
	switch sc.mode {
	case "perturb":
		switch act {
		case 0, 1:
			runtime.Gosched()
		case 2:
			time.Sleep(time.Duration(50+act*30) * time.Microsecond)
		case 3:
			t := time.Now()
			for time.Since(t) < 30*time.Microsecond {
			}
		}
	case "reverse":
		// workers finish in reverse order inside each window: a worker reaching its end waits (bounded)
		// until a later block has ended, so completion order differs from dispatch order.
		if point == "bsdiff-worker-end" {
			sc.mu.Lock()
			sc.ended[b] = true
			sc.cond.Broadcast()
			deadline := time.Now().Add(3 * time.Millisecond)
			for !sc.ended[b+1] && time.Now().Before(deadline) {
				sc.mu.Unlock()
				time.Sleep(200 * time.Microsecond)
				sc.mu.Lock()
			}
			sc.mu.Unlock()
		}
	}
}

func c12Rand(s c12Spec, res *lib.Result) {
	r := lib.NewRng(s.Seed)
	var old, nw []byte
	size := func(max int) int { return r.PickInt([]int{1, 2, 17, 1000, 70000, 200000, max/3 + 1, max}) }
	max := 1 * lib.MB
	mk := func(n int) []byte { return lib.RandomBytes(int64(n), r.Uint64()) }
	editCopy := func(src []byte) []byte {
		out := append([]byte(nil), src...)
		for i := 0; i < r.Range(1, 12) && len(out) > 0; i++ {
			off := r.Intn(len(out))
			n := r.PickInt([]int{1, 4, 100, 5000})
			if off+n > len(out) {
				n = len(out) - off
			}
			switch r.Intn(3) {
			case 0:
				lib.FillRandom(out[off:off+n], r.Uint64())
			case 1:
				out = append(out[:off:off], append(mk(n), out[off:]...)...)
			default:
				out = append(out[:off:off], out[off+n:]...)
			}
		}
		return out
	}
	smallAlpha := func(n, alpha int) []byte {
		b := make([]byte, n)
		for i := range b {
			b[i] = byte('a' + r.Intn(alpha))
		}
		return b
	}
	switch s.Shape {
	case "shuffled-pieces": // far more matches per scanner block than a worker's result channel holds
		old = mk(r.PickInt([]int{300000, 768 * 1024}))
		piece := r.PickInt([]int{96, 192, 300})
		var pieces [][]byte
		for off := 0; off < len(old); off += piece {
			e := off + piece
			if e > len(old) {
				e = len(old)
			}
			pieces = append(pieces, old[off:e])
		}
		r.Shuffle(len(pieces), func(i, j int) { pieces[i], pieces[j] = pieces[j], pieces[i] })
		for _, pc := range pieces {
			nw = append(nw, pc...)
		}
	case "small-alphabet": // self-similar input over 2-3 letters, far longer than the exhaustive part reaches
		old = smallAlpha(r.PickInt([]int{10, 30, 69, 200, 1000, 5000}), r.Range(2, 3))
		nw = editCopy(old)
		if r.Bool() {
			nw = append(nw[r.Intn(len(nw)/2+1):], smallAlpha(r.Range(0, 40), 2)...)
		}
	case "dupseg": // a segment present twice in old (second copy altered near its start), middle dropped in new
		A, S, X, B := mk(r.Range(10, 3000)), mk(r.Range(20, 5000)), mk(r.Range(5, 2000)), mk(r.Range(10, 3000))
		S2 := append([]byte(nil), S...)
		for k := 0; k < r.Range(1, 4); k++ {
			S2[r.Intn(min(len(S2), 40))] ^= byte(1 + r.Intn(250))
		}
		old = append(append(append(append(append([]byte(nil), A...), S...), X...), S2...), B...)
		nw = append(append(append([]byte(nil), A...), S...), B...)
		if r.Bool() {
			nw = append(append(append([]byte(nil), A...), S2...), B...)
		}
	case "phase-shift": // periodic data with a phase shift and point mutations
		per := r.PickInt([]int{2, 3, 5, 7, 31, 255})
		pat := smallAlpha(per, 3)
		n := r.PickInt([]int{50, 500, 5000, 50000})
		old = make([]byte, n)
		for i := range old {
			old[i] = pat[i%per]
		}
		if per >= n {
			per = n - 1
		}
		nw = append(append([]byte(nil), old[r.Range(1, per):]...), old[:r.Range(0, per)]...)
		for k := 0; k < r.Range(0, 5); k++ {
			nw[r.Intn(len(nw))] ^= 1
		}
	case "edited":
		old = mk(size(max))
		nw = editCopy(old)
	case "big-edited":
		old = mk(r.Range(2*lib.MB, 6*lib.MB))
		nw = editCopy(old)
	case "periodic":
		per := r.PickInt([]int{1, 2, 3, 7, 255, 4096})
		old = lib.MakeContent(lib.CPeriod, int64(size(max)), uint64(per), r)
		nw = editCopy(old)
		_ = per
	case "random":
		old, nw = mk(size(max)), mk(size(max))
	case "reversed":
		old = mk(size(300000))
		nw = make([]byte, len(old))
		for i := range old {
			nw[i] = old[len(old)-1-i]
		}
	case "new<<old":
		old = mk(size(max))
		nw = mk(r.Range(1, 20))
		if r.Bool() && len(old) > 20 {
			nw = append([]byte(nil), old[5:5+len(nw)%15]...)
		}
	case "old<<new":
		old = mk(r.Range(1, 20))
		nw = append(mk(size(max)), old...)
	case "new-empty":
		old = mk(size(max))
	case "old-empty":
		nw = mk(size(max))
	case "old<parts":
		old = mk(r.Range(1, 17))
		nw = mk(size(100000))
	case "new<parts":
		old = mk(size(max))
		nw = mk(r.Range(1, 16))
	}
	if s.Shape == "ctx-reuse" {
		c12Reuse(s, r, res)
		return
	}
	prev := runtime.GOMAXPROCS(s.Procs)
	defer runtime.GOMAXPROCS(prev)
	sc := &c12Sched{mode: s.Sched, rng: lib.NewRng(lib.Mix(s.Seed, 5)), ended: map[int64]bool{}}
	sc.cond = sync.NewCond(&sc.mu)
	if s.Sched != "none" {
		lib.SetHook(sc)
		defer lib.SetHook(nil)
	}
	m := &c12Monitor{dctx: &bsdiff.DiffContext{SuffixSortConcurrency: r.PickInt([]int{0, 1, 4, -1})}, pctx: bsdiff.NewPatchContext()}
	key, detail, rs := m.check(old, nw, s.P, true)
	lib.SetHook(nil)
	if key != "" {
		res.Violate(key, fmt.Sprintf("shape=%s |old|=%d |new|=%d partitions=%d procs=%d sched=%s seed=%d", s.Shape, len(old), len(nw), s.P, s.Procs, s.Sched, s.Seed), detail)
	}
	res.Add("random_executions", 1)
	res.Add("midseries_resumes", int64(rs))
	res.Add("hook_events", int64(len(sc.sig)))
	if s.Sched != "none" && len(sc.sig) > 0 {
		res.SetAdd("interleaving_signatures", fmt.Sprintf("%x", lib.Sum64([]byte(strings.Join(sc.sig, ",")))))
	}
	res.NonTrivial = true
	res.Feat = []string{fmt.Sprintf("rand|%s|p=%d|procs=%d|%s", s.Shape, s.P, s.Procs, s.Sched)}
	if s.Seed%11 == 0 {
		res.Sample = map[string]interface{}{"mode": "rand", "shape": s.Shape, "oldLen": len(old), "newLen": len(nw), "partitions": s.P, "gomaxprocs": s.Procs, "sched": s.Sched, "hookEvents": len(sc.sig)}
	}
}

// c12Reuse: ONE DiffContext / PatchContext reused for a sequence of related (old,new) pairs, the way
// the optimizer reuses its bsdiff context for every file of a build: old sizes shrink, and later new
// files contain runs that only earlier (longer) old files held - state left over from an earlier
// diff must not leak into a later one.
func c12Reuse(s c12Spec, r *lib.Rng, res *lib.Result) {
	m := &c12Monitor{dctx: &bsdiff.DiffContext{}, pctx: bsdiff.NewPatchContext()}
	base := lib.RandomBytes(int64(r.PickInt([]int{3000, 40000, 300000})), r.Uint64())
	size := len(base)
	for step := 0; step < 5; step++ {
		old := base[:size]
		var nw []byte
		switch r.Intn(3) {
		case 0: // a run the current old does not have but an earlier, longer old had; at the start of new
			if size < len(base) {
				st := r.Range(size, len(base)-1)
				en := st + r.Range(9, 400)
				if en > len(base) {
					en = len(base)
				}
				nw = append(nw, base[st:en]...)
			}
			nw = append(nw, old[:len(old)/2]...)
		case 1: // such a run in the middle
			nw = append(nw, old[:len(old)/3]...)
			nw = append(nw, base[len(base)-r.Range(9, min(400, len(base))):]...)
			nw = append(nw, old[len(old)/3:]...)
		default:
			nw = append(append([]byte(nil), old...), lib.RandomBytes(int64(r.Range(1, 50)), r.Uint64())...)
		}
		key, detail, rs := m.check(old, nw, s.P, true)
		res.Add("random_executions", 1)
		res.Add("context_reuse_steps", 1)
		res.Add("midseries_resumes", int64(rs))
		if key != "" {
			res.Violate(key, fmt.Sprintf("shape=ctx-reuse step=%d |old|=%d |new|=%d (longest earlier old %d) partitions=%d seed=%d", step, len(old), len(nw), len(base), s.P, s.Seed), detail)
			return
		}
		size = size * r.Range(30, 70) / 100
		if size < 10 {
			break
		}
	}
	res.NonTrivial = true
	res.Feat = []string{fmt.Sprintf("rand|ctx-reuse|p=%d|base=%d", s.P, len(base))}
}

// c12Lru: lrufile against a plain in-memory reader, 50 random programs per case.
func c12Lru(s c12Spec, res *lib.Result) {
	r := lib.NewRng(s.Seed)
	for prog := 0; prog < 50; prog++ {
		chunk := int64(r.PickInt([]int{1, 2, 3, 7, 64, 4096}))
		entries := r.PickInt([]int{1, 2, 3, 8})
		lf, err := lrufile.New(chunk, entries)
		if err != nil {
			res.Violate("lrufile-new-error", err.Error())
			return
		}
		var trace []string
		prevSize := int64(-1)
		prevPrev := int64(-2)
		var shared *bytes.Reader
		for round := 0; round < 3; round++ { // Reset onto further files: stale storage must not leak
			size := int64(r.Range(0, 5))*chunk + int64(r.Range(-1, 1))
			if size < 0 {
				size = 0
			}
			if round > 0 && r.Bool() {
				size = prevSize // a different file of exactly the same size
			}
			prevSize = size
			data := lib.RandomBytes(size, r.Uint64())
			var rs io.ReadSeeker = bytes.NewReader(data)
			if size == prevPrev && round > 0 && shared != nil {
				// the SAME reader object as in the round before, now over other content of the same length (a
				// bytes.Reader that was Reset, a file rewritten in place, a pool handing its cached reader back)
				shared.Reset(data)
				rs = shared
				res.Add("lrufile_resets_onto_the_same_reader_object_with_new_content", 1)
			} else {
				shared = bytes.NewReader(data)
				rs = shared
			}
			prevPrev = size
			if err := lf.Reset(rs); err != nil {
				res.Violate("lrufile-reset-error", err.Error())
				return
			}
			off := int64(0)
			trace = append(trace, fmt.Sprintf("reset(size=%d)", size))
			for op := 0; op < 40; op++ {
				if r.Chance(0.4) {
					whence := r.Intn(3)
					var arg, want int64
					switch whence {
					case io.SeekStart:
						arg = r.Range64(-2, size+2)
						want = arg
					case io.SeekCurrent:
						arg = r.Range64(-off-2, size-off+2)
						want = off + arg
					default:
						arg = r.Range64(-size-2, 2)
						want = size + arg
					}
					got, err := lf.Seek(arg, whence)
					trace = append(trace, fmt.Sprintf("seek(%d,%d)=%d,%v", arg, whence, got, err != nil))
					if want < 0 || want > size {
						if err == nil {
							res.Violate("lrufile-seek-out-of-range-accepted", fmt.Sprintf("chunk=%d entries=%d", chunk, entries), strings.Join(tailStr(trace, 12), " "))
							return
						}
						// position after a rejected seek is unspecified: re-establish it
						off = r.Range64(0, size)
						if _, err := lf.Seek(off, io.SeekStart); err != nil {
							res.Violate("lrufile-seek-error", err.Error(), strings.Join(tailStr(trace, 12), " "))
							return
						}
						continue
					}
					if err != nil || got != want {
						res.Violate("lrufile-seek-wrong", fmt.Sprintf("chunk=%d entries=%d want %d got %d err %v", chunk, entries, want, got, err), strings.Join(tailStr(trace, 12), " "))
						return
					}
					off = want
				} else {
					n := int(r.Range64(0, 3*chunk))
					buf := make([]byte, n)
					got, err := lf.Read(buf)
					wantN := int(size - off)
					if wantN > n {
						wantN = n
					}
					trace = append(trace, fmt.Sprintf("read(%d)@%d=%d,%v", n, off, got, err))
					if got != wantN || !bytes.Equal(buf[:got], data[off:off+int64(got)]) {
						res.Violate("lrufile-read-differs-from-model", fmt.Sprintf("chunk=%d entries=%d size=%d: read(%d)@%d returned n=%d (model %d), bytesEqual=%v",
							chunk, entries, size, n, off, got, wantN, got <= wantN && bytes.Equal(buf[:got], data[off:off+int64(got)])), strings.Join(tailStr(trace, 12), " "))
						return
					}
					if n > 0 {
						if err != nil && err != io.EOF {
							res.Violate("lrufile-read-error", err.Error(), strings.Join(tailStr(trace, 12), " "))
							return
						}
						if wantN < n && err != io.EOF {
							res.Violate("lrufile-missing-eof", fmt.Sprintf("short read (%d of %d) without io.EOF", got, n), strings.Join(tailStr(trace, 12), " "))
							return
						}
						if err == io.EOF && off+int64(got) != size {
							res.Violate("lrufile-early-eof", fmt.Sprintf("EOF at offset %d of %d", off+int64(got), size), strings.Join(tailStr(trace, 12), " "))
							return
						}
					}
					off += int64(got)
					res.Add("lrufile_reads_compared", 1)
				}
			}
		}
		res.Add("lrufile_programs", 1)
		res.Feat = append(res.Feat, fmt.Sprintf("lru|chunk=%d|entries=%d", chunk, entries))
	}
	res.Add("executions", 50)
	res.NonTrivial = true
}

func tailStr(xs []string, n int) []string {
	if len(xs) > n {
		return xs[len(xs)-n:]
	}
	return xs
}

func c12Run(c lib.Case, env *lib.Env) lib.Result {
	var s c12Spec
	lib.ReadSpec(c, &s)
	res := lib.Result{}
	switch s.Mode {
	case "exh":
		c12Exh(s, &res)
		if s.Shard == 0 {
			res.Sample = map[string]interface{}{"mode": "exhaustive", "alphabet": s.Alpha, "maxLen": s.MaxLen, "partitions": s.Parts, "shards": s.Shards, "executions_in_this_shard": res.Obs["executions"]}
		}
	case "lru":
		c12Lru(s, &res)
	default:
		c12Rand(s, &res)
	}
	return res
}

func init() {
	lib.Register(&lib.Property{
		ID:          "C12",
		Level:       "exploration",
		Rule:        "every execution of the real bsdiff DiffContext.Do is monitored: controls recorded from WriteMessageFunc are checked for a single trailing Eof and length accounting, applied by a reference applier, by the real PatchContext.Patch (through lrufile) and, from every control j (16 sampled above 64 controls), by a fresh IndividualPatchContext started at the saved old offset. Exhaustive: all (old,new) over alphabet 2 with lengths 0..6 and alphabet 3 with lengths 0..4 for partitions {0,1,2,3,5,8,16} (thorough: 0..16, plus alphabet 2 lengths 0..8). Random: shapes edited / periodic / random / reversed / new<<old / old<<new / new-empty / old-empty / old<parts / new<parts / big-edited (up to 6 MiB), partitions 0..16, GOMAXPROCS {1,2,16}, schedules none / perturb / reverse on the bsdiff hooks; race-detector pass. lrufile: random Seek/Read programs against a plain in-memory model for chunk {1,2,3,7,64,4096} x entries {1,2,3,8}, files of 0..5 chunks ±1, with Reset onto a second file. distinct_nontrivial = exhaustive executions with old != new, both non-empty + distinct random/lru signatures",
		Assumptions: []string{"io.EOF returned together with the last bytes is treated as equivalent to io.EOF on the next read (both legal io.Reader behaviour)", "the position after a rejected out-of-range Seek is unspecified"},
		Flavors:     func(tier string) []string { return []string{"plain", "race"} },
		Cases:       c12Cases,
		Run:         c12Run,
		Batch:       8,
		CaseBudget:  600 * 1e9,
		Exhaustive: func(tier string) (bool, string) {
			return true, "exhaustive part only: all (old,new) pairs over the listed alphabets/lengths for the listed partition counts; random and lrufile parts are sampled"
		},
	})
}
