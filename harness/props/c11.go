package props

import (
	"bytes"
	"context"
	"fmt"

	"github.com/itchio/wharf/wsync"
	"verif/lib"
)

// C11 — rsync operations reconstruct the source and stay within the old files (DESIGN §5 C11).

type c11Spec struct {
	Mode string `json:"mode"` // exh | rand
	// exhaustive spaces
	Space  string `json:"space,omitempty"`
	Alpha  int    `json:"alpha,omitempty"`
	NOld   int    `json:"nOld,omitempty"`
	MaxOld int    `json:"maxOld,omitempty"`
	MaxNew int    `json:"maxNew,omitempty"`
	Shard  int    `json:"shard,omitempty"`
	Shards int    `json:"shards,omitempty"`
	// random large cases
	Seed  uint64 `json:"seed,omitempty"`
	BS    int    `json:"bs,omitempty"`
	Shape string `json:"shape,omitempty"`
	Pick  int    `json:"pick,omitempty"` // disjoint-at-wrap: 1-based index into the length list (0 = random)
}

type c11Space struct {
	name                        string
	alpha, nOld, maxOld, maxNew int
}

var c11Quick = []c11Space{
	{"E1", 2, 1, 7, 9}, {"E2", 3, 1, 5, 7}, {"E3", 2, 2, 4, 9}, {"E4", 2, 3, 3, 8},
}
var c11Thorough = []c11Space{
	{"E5", 2, 2, 6, 9}, {"E6", 3, 1, 7, 8}, {"E7", 3, 2, 3, 7}, {"E8", 2, 2, 7, 8}, {"E9", 2, 3, 4, 8},
}

var c11RandBS = []int{1, 2, 3, 7, 64, 1000, 4096, 65536}
var c11Shapes = []string{"constant-run", "nomatch", "phases", "wrapmatch", "lowentropy", "tailprefix", "exact4m", "fresh-tail", "disjoint-at-wrap"}

func c11Cases(tier string, seed uint64, flavor string) []lib.Case {
	var cases []lib.Case
	spaces := c11Quick
	if tier == "thorough" {
		spaces = append(append([]c11Space{}, c11Quick...), c11Thorough...)
	}
	for _, sp := range spaces {
		shards := 32
		if tier == "thorough" && (sp.name >= "E5") {
			shards = 128
		}
		for sh := 0; sh < shards; sh++ {
			cases = append(cases, lib.Case{Kind: "exh:" + sp.name, Spec: lib.MustSpec(c11Spec{Mode: "exh", Space: sp.name, Alpha: sp.alpha,
				NOld: sp.nOld, MaxOld: sp.maxOld, MaxNew: sp.maxNew, Shard: sh, Shards: shards})})
		}
	}
	n := 120
	if tier == "thorough" {
		n = 4000
	}
	for i := 0; i < n; i++ {
		s := c11Spec{Mode: "rand", Seed: lib.Mix(seed, 11, uint64(i)), BS: c11RandBS[i%len(c11RandBS)], Shape: c11Shapes[(i/len(c11RandBS))%len(c11Shapes)]}
		cases = append(cases, lib.Case{Seed: s.Seed, Kind: "rand:" + s.Shape, Spec: lib.MustSpec(s)})
	}
	// every length around the buffer wrap, for the small block sizes (deterministic list)
	for _, bs := range []int{1, 2, 3} {
		for pick := 1; pick <= 10; pick++ {
			s := c11Spec{Mode: "rand", Seed: lib.Mix(seed, 111, uint64(bs), uint64(pick)), BS: bs, Shape: "disjoint-at-wrap", Pick: pick}
			cases = append(cases, lib.Case{Seed: s.Seed, Kind: "rand:" + s.Shape, Spec: lib.MustSpec(s)})
		}
	}
	return cases
}

// allStrings returns every string over {0..alpha-1} of length 0..maxLen.
func allStrings(alpha, maxLen int) [][]byte {
	out := [][]byte{{}}
	prev := [][]byte{{}}
	for l := 1; l <= maxLen; l++ {
		var cur [][]byte
		for _, p := range prev {
			for a := 0; a < alpha; a++ {
				s := append(append([]byte(nil), p...), byte('a'+a))
				cur = append(cur, s)
			}
		}
		out = append(out, cur...)
		prev = cur
	}
	return out
}

type c11Checker struct {
	ctx     *wsync.Context
	apply   *wsync.Context
	bs      int
	ops     []wsync.Operation
	dataBuf []byte
	out     bytes.Buffer
	refOut  []byte
	nApply  int
}

func (ck *c11Checker) record(op wsync.Operation) error {
	if op.Type == wsync.OpData {
		start := len(ck.dataBuf)
		ck.dataBuf = append(ck.dataBuf, op.Data...)
		op.Data = ck.dataBuf[start:len(ck.dataBuf):len(ck.dataBuf)]
	}
	ck.ops = append(ck.ops, op)
	return nil
}

// run executes the real ComputeDiff and checks every clause; returns a violation key + detail or "".
func (ck *c11Checker) run(olds [][]byte, lib_ *wsync.BlockLibrary, newData []byte, pref int64, pool *lib.MemPool, realApply bool) (string, string, int, int) {
	ck.ops = ck.ops[:0]
	ck.dataBuf = ck.dataBuf[:0]
	if err := ck.ctx.ComputeDiff(bytes.NewReader(newData), lib_, ck.record, pref); err != nil {
		return "computediff-error", err.Error(), 0, 0
	}
	bs := int64(ck.bs)
	ck.refOut = ck.refOut[:0]
	nRange, nData := 0, 0
	for i, op := range ck.ops {
		switch op.Type {
		case wsync.OpBlockRange:
			nRange++
			if op.FileIndex < 0 || op.FileIndex >= int64(len(olds)) {
				return "range-file-index", fmt.Sprintf("op %d names file %d of %d", i, op.FileIndex, len(olds)), 0, 0
			}
			size := int64(len(olds[op.FileIndex]))
			nb := (size + bs - 1) / bs
			if op.BlockIndex < 0 || op.BlockSpan < 1 || op.BlockIndex+op.BlockSpan > nb {
				return "range-out-of-bounds", fmt.Sprintf("op %d = {file %d idx %d span %d}, file has %d blocks", i, op.FileIndex, op.BlockIndex, op.BlockSpan, nb), 0, 0
			}
			if i > 0 {
				p := ck.ops[i-1]
				if p.Type == wsync.OpBlockRange && p.FileIndex == op.FileIndex && p.BlockIndex+p.BlockSpan == op.BlockIndex {
					return "ranges-not-merged", fmt.Sprintf("ops %d,%d: {f%d %d+%d} {f%d %d+%d}", i-1, i, p.FileIndex, p.BlockIndex, p.BlockSpan, op.FileIndex, op.BlockIndex, op.BlockSpan), 0, 0
				}
			}
			end := (op.BlockIndex + op.BlockSpan) * bs
			if end > size {
				end = size
			}
			ck.refOut = append(ck.refOut, olds[op.FileIndex][op.BlockIndex*bs:end]...)
		case wsync.OpData:
			nData++
			if len(op.Data) > wsync.MaxDataOp {
				return "data-op-too-large", fmt.Sprintf("op %d carries %d bytes (limit %d), new content %d bytes", i, len(op.Data), wsync.MaxDataOp, len(newData)), 0, 0
			}
			if len(op.Data) == 0 && i != 0 {
				return "empty-data-not-leading", fmt.Sprintf("op %d of %d is an empty data op", i, len(ck.ops)), 0, 0
			}
			ck.refOut = append(ck.refOut, op.Data...)
		default:
			return "unknown-op", fmt.Sprintf("op %d type %d", i, op.Type), 0, 0
		}
	}
	if !bytes.Equal(ck.refOut, newData) {
		return "replay-mismatch", fmt.Sprintf("reference replay gives %d bytes (first diff at %d), new content has %d", len(ck.refOut), firstDiffAt(ck.refOut, newData), len(newData)), 0, 0
	}
	if realApply {
		ck.out.Reset()
		ck.nApply++
		if ck.nApply%2 == 0 {
			// the library's own replay loop over an operation channel
			ch := make(chan wsync.Operation, len(ck.ops))
			for _, op := range ck.ops {
				ch <- op
			}
			close(ch)
			if err := ck.apply.ApplyPatch(&ck.out, pool, ch); err != nil {
				return "applypatch-error", err.Error(), 0, 0
			}
		} else {
			for i, op := range ck.ops {
				if err := ck.apply.ApplySingle(&ck.out, pool, op); err != nil {
					return "applysingle-error", fmt.Sprintf("op %d: %v", i, err), 0, 0
				}
			}
		}
		if !bytes.Equal(ck.out.Bytes(), newData) {
			return "applysingle-mismatch", fmt.Sprintf("ApplySingle gives %d bytes (first diff at %d), new content has %d", ck.out.Len(), firstDiffAt(ck.out.Bytes(), newData), len(newData)), 0, 0
		}
	}
	return "", "", nRange, nData
}

func firstDiffAt(a, b []byte) int {
	n := len(a)
	if len(b) < n {
		n = len(b)
	}
	for i := 0; i < n; i++ {
		if a[i] != b[i] {
			return i
		}
	}
	return n
}

func signOld(ctx *wsync.Context, olds [][]byte) (*wsync.BlockLibrary, error) {
	var hashes []wsync.BlockHash
	for i, o := range olds {
		err := ctx.CreateSignature(context.Background(), int64(i), bytes.NewReader(o), func(h wsync.BlockHash) error {
			hashes = append(hashes, h)
			return nil
		})
		if err != nil {
			return nil, err
		}
	}
	return wsync.NewBlockLibrary(hashes), nil
}

func c11Exh(s c11Spec, res *lib.Result) {
	strs := allStrings(s.Alpha, s.MaxOld)
	news := allStrings(s.Alpha, s.MaxNew)
	S := len(strs)
	tuples := 1
	for i := 0; i < s.NOld; i++ {
		tuples *= S
	}
	var execs, nontrivial int64
	for bs := 1; bs <= 4; bs++ {
		ck := &c11Checker{ctx: wsync.NewContext(bs), apply: wsync.NewContext(bs), bs: bs}
		sctx := wsync.NewContext(bs)
		for t := s.Shard; t < tuples; t += s.Shards {
			olds := make([][]byte, s.NOld)
			x := t
			for i := 0; i < s.NOld; i++ {
				olds[i] = strs[x%S]
				x /= S
			}
			blib, err := signOld(sctx, olds)
			if err != nil {
				res.Violate("createsignature-error", err.Error())
				return
			}
			pool := &lib.MemPool{Files: olds, Cache: true}
			for ni, nd := range news {
				for pref := int64(-1); pref < int64(s.NOld); pref++ {
					key, detail, nr, ndata := ck.run(olds, blib, nd, pref, pool, (ni+int(pref))%4 == 0)
					execs++
					if key != "" {
						res.Violate(key, fmt.Sprintf("space=%s bs=%d olds=%q new=%q preferred=%d", s.Space, bs, olds, nd, pref), detail)
						if len(res.Violations) > 5 {
							res.Add("executions", execs)
							return
						}
						continue
					}
					if nr > 0 && ndata > 0 {
						nontrivial++
					}
				}
			}
		}
	}
	res.Add("executions", execs)
	res.Add("distinct_nontrivial_executions", nontrivial)
	res.Add("exhaustive_executions", execs)
	res.SetAdd("spaces", s.Space)
}

func c11Rand(s c11Spec, res *lib.Result) {
	r := lib.NewRng(s.Seed)
	bs := s.BS
	// old files
	nOld := r.Range(1, 3)
	olds := make([][]byte, nOld)
	lowEntropy := s.Shape == "lowentropy"
	for i := range olds {
		n := int64(r.Range(3, 40))*int64(bs) + int64(r.Intn(bs))
		if bs < 64 {
			n = int64(r.Range(50, 4000))
		}
		if lowEntropy {
			olds[i] = lib.MakeContent(lib.CPeriod, n, r.Uint64()%5, r)
		} else {
			olds[i] = lib.RandomBytes(n, r.Uint64())
		}
	}
	junk := func(n int) []byte {
		if lowEntropy {
			return lib.MakeContent(lib.CPeriod, int64(n), r.Uint64()%5, r)
		}
		return lib.RandomBytes(int64(n), r.Uint64())
	}
	oldBlocks := func(k int) []byte { // k consecutive whole blocks of some old file
		f := olds[r.Intn(nOld)]
		nb := len(f) / bs
		if nb == 0 {
			return nil
		}
		if k > nb {
			k = nb
		}
		st := r.Intn(nb - k + 1)
		return f[st*bs : (st+k)*bs]
	}
	const M4 = wsync.MaxDataOp
	var nd []byte
	target := 8*lib.MB + r.Intn(3*bs+5)
	switch s.Shape {
	case "nomatch":
		nd = junk(M4 + r.PickInt([]int{0, 1, 100, bs - 1, bs, bs + 1, 2*bs + 1, M4 / 2, M4, M4 + 1}))
	case "fresh-tail": // matches first, then a fresh tail of about 4 MiB (+/- a block)
		nd = append(nd, oldBlocks(3)...)
		nd = append(nd, junk(M4+r.PickInt([]int{-bs - 1, -1, 0, 1, bs - 1, bs, bs + 1, 2 * bs}))...)
	case "constant-run": // matched head, then more than 4 MiB of ONE repeated byte value that no old block has, then a matched tail
		for i := range olds {
			for k := range olds[i] {
				if olds[i][k] == 0xEE {
					olds[i][k] = 0xED
				}
			}
		}
		nd = append(nd, oldBlocks(3)...)
		run := make([]byte, r.PickInt([]int{M4 + 1, M4 + bs, 2*M4 + 3*bs + 1, 9 * lib.MB}))
		for k := range run {
			run[k] = 0xEE
		}
		nd = append(nd, run...)
		nd = append(nd, oldBlocks(2)...)
	case "disjoint-at-wrap":
		// new content that can never match (byte values disjoint from the old files) and ends exactly at / next to
		// the point where the working buffer (4 MiB + 2 blocks) wraps: the differ is rolling when the input ends
		for i := range olds {
			for k := range olds[i] {
				olds[i][k] &= 0x7f
			}
		}
		B := M4 + 2*bs
		lens := []int{B - 1, B, B + 1, B + bs - 1, B + bs, B + bs + 1, 2*B - bs - 1, 2*B - bs, 2*B - bs + 1, 2 * B}
		n := r.PickInt(lens)
		if s.Pick > 0 {
			n = lens[(s.Pick-1)%len(lens)]
		}
		nd = lib.RandomBytes(int64(n), r.Uint64())
		for k := range nd {
			nd[k] |= 0x80
		}
	case "exact4m":
		nd = junk(r.PickInt([]int{M4 - bs - 1, M4 - bs, M4 - 1, M4, M4 + 1, M4 + bs - 1, M4 + bs, M4 + bs + 1, M4 + 2*bs, M4 + 2*bs + 1}))
		if r.Bool() {
			nd = append(nd, oldBlocks(2)...)
		}
	case "wrapmatch": // a run of matches that crosses the 4MiB+2*bs buffer wrap
		pre := M4 + 2*bs - r.Range(0, 3*bs+2)
		if r.Bool() {
			// reach the wrap through matches only (data window stays empty)
			for len(nd) < pre {
				nd = append(nd, oldBlocks(8)...)
			}
		} else {
			nd = junk(pre)
		}
		for i := 0; i < 6; i++ {
			nd = append(nd, oldBlocks(r.Range(1, 5))...)
		}
		nd = append(nd, junk(r.Intn(3*bs+1))...)
	case "tailprefix": // a short tail equal to a prefix of another block
		nd = junk(r.Range(0, 2*bs))
		nd = append(nd, oldBlocks(2)...)
		blk := oldBlocks(1)
		if len(blk) > 1 {
			nd = append(nd, blk[:r.Range(1, len(blk)-1)]...)
		}
		nd = append(junk(M4+r.Intn(bs+1)), nd...)
	default: // phases: junk(p) || old blocks || junk(q) ... sweeping every phase
		for len(nd) < target {
			p := r.Range(0, bs+1)
			if bs >= 4096 && r.Chance(0.3) {
				p = r.PickInt([]int{0, 1, bs - 1, bs, bs + 1})
			}
			nd = append(nd, junk(p)...)
			nd = append(nd, oldBlocks(r.Range(1, 6))...)
			if r.Chance(0.1) {
				nd = append(nd, junk(r.Range(1, 300000))...)
			}
			if bs < 64 && len(nd) > 5*lib.MB {
				break
			}
		}
	}
	ck := &c11Checker{ctx: wsync.NewContext(bs), apply: wsync.NewContext(bs), bs: bs}
	blib, err := signOld(wsync.NewContext(bs), olds)
	if err != nil {
		res.Violate("createsignature-error", err.Error())
		return
	}
	pref := int64(r.Range(-1, nOld-1))
	key, detail, nr, ndata := ck.run(olds, blib, nd, pref, &lib.MemPool{Files: olds, Cache: true}, true)
	if key != "" {
		res.Violate(key, fmt.Sprintf("shape=%s bs=%d newLen=%d (4MiB%+d) oldLens=%v preferred=%d seed=%d", s.Shape, bs, len(nd), len(nd)-M4, lens(olds), pref, s.Seed), detail)
	}
	res.Add("random_large_executions", 1)
	res.Add("ops_checked", int64(nr+ndata))
	res.Add("bytes_replayed", int64(len(nd)))
	maxData := 0
	for _, op := range ck.ops {
		if op.Type == wsync.OpData && len(op.Data) > maxData {
			maxData = len(op.Data)
		}
	}
	res.Max("data_op_bytes", int64(maxData))
	wrap := "nowrap"
	if len(nd) > M4+2*bs {
		wrap = "wrap"
	}
	res.Feat = []string{fmt.Sprintf("rand|%s|bs=%d|%s|ranges=%v|data=%v", s.Shape, bs, wrap, nr > 0, ndata > 0)}
	res.NonTrivial = true
	if s.Seed%13 == 0 {
		res.Sample = map[string]interface{}{"mode": "rand", "shape": s.Shape, "bs": bs, "newLen": len(nd), "oldLens": lens(olds), "preferred": pref, "rangeOps": nr, "dataOps": ndata, "maxDataOp": maxData}
	}
}

func lens(xs [][]byte) []int {
	var out []int
	for _, x := range xs {
		out = append(out, len(x))
	}
	return out
}

func c11Run(c lib.Case, env *lib.Env) lib.Result {
	var s c11Spec
	lib.ReadSpec(c, &s)
	res := lib.Result{}
	if s.Mode == "exh" {
		c11Exh(s, &res)
		if s.Shard == 0 {
			res.Sample = map[string]interface{}{"mode": "exhaustive", "space": s.Space, "alphabet": s.Alpha, "oldFiles": s.NOld, "maxOldLen": s.MaxOld,
				"maxNewLen": s.MaxNew, "blockSizes": "1..4", "preferred": "-1..nOld-1", "shards": s.Shards, "executions_in_this_shard": res.Obs["executions"]}
		}
	} else {
		c11Rand(s, &res)
	}
	return res
}

func init() {
	lib.Register(&lib.Property{
		ID:          "C11",
		Level:       "exploration",
		Rule:        "every execution of the real CreateSignature+ComputeDiff is monitored: recorded operations are replayed by a reference replayer with explicit bounds checks and (every 4th exhaustive / every random case) by the real ApplySingle / ApplyPatch (alternating) over an in-memory pool that, like lake's fspool, hands its one cached reader back where it was left; structural predicates (range inside the named file, merged ranges, data op <= 4 MiB, empty data only leading). Exhaustive sub-spaces, each enumerated completely for block sizes 1..4 and every preferred index: E1 one old file alphabet 2 |old|<=7 |new|<=9; E2 one old alphabet 3 |old|<=5 |new|<=7; E3 two old alphabet 2 |old|<=4 |new|<=9; E4 three old alphabet 2 |old|<=3 |new|<=8 (thorough adds E5 two old a2 |old|<=6 |new|<=9, E6 one old a3 |old|<=7 |new|<=8, E7 two old a3 |old|<=3 |new|<=7, E8 two old a2 |old|<=7 |new|<=8, E9 three old a2 |old|<=4 |new|<=8). Random large part: block sizes {1,2,3,7,64,1000,4096,65536}, new content > 4 MiB (up to 8 MiB+) in shapes nomatch / phases / wrapmatch / lowentropy / tailprefix / exact4m / fresh-tail. distinct_nontrivial = exhaustive executions whose op list has both a block range and a data op (distinct tuples by construction) + distinct random feature signatures",
		Assumptions: []string{"the property's full small-scope statement (three files of length <= 7 over 3 symbols) is > 10^16 cases and is NOT enumerated; exhaustive=true refers to the listed sub-spaces only"},
		Cases:       c11Cases,
		Run:         c11Run,
		Batch:       4,
		CaseBudget:  900 * 1e9,
		Exhaustive: func(tier string) (bool, string) {
			if tier == "thorough" {
				return true, "sub-spaces E1..E9 as listed in rule, complete; the random large part is sampled"
			}
			return true, "sub-spaces E1..E4 as listed in rule, complete; the random large part is sampled"
		},
	})
}
