package props

import (
	"bytes"
	"context"
	"fmt"
	"io"
	"sync"

	"github.com/itchio/lake"
	"github.com/itchio/lake/tlc"
	"github.com/itchio/wharf/pwr"
	"github.com/itchio/wharf/pwr/bowl"
	"verif/lib"
)

// C18 — a validating pool checks every block regardless of write sizes (DESIGN §5 C18).

type c18Spec struct {
	Seed  uint64 `json:"seed"`
	SSize int64  `json:"sSize"`
	DKind string `json:"dKind"`
	Arg   int    `json:"arg"`
	Slice int    `json:"slice"` // write size; -1 all at once; -2 random
	Mode  string `json:"mode"`  // error-stop | error-continue | wound | wound-agg
	// Interleave: a second writer of the SAME pool (the other signed file, written with its correct content) is open
	// at the same time and the two are fed alternately
	Interleave bool `json:"interleave"`
	// Via: "" = ValidatingPool.GetWriter directly; "bowl-writer" = through bowl.NewPoolBowl(...).GetWriter (the patcher's
	// entry writer); "bowl-transpose" = bowl.Transpose copying a target-pool file holding D into the validating pool
	Via string `json:"via,omitempty"`
	// Prelude: the SAME pool has already served a complete writer lifetime of this file before the judged one:
	// "good-first" (the signed content) or "bad-first" (content with a flipped bit per block; its error is ignored)
	Prelude string `json:"prelude,omitempty"`
}

var c18SSizes = []int64{0, 1, lib.BS - 1, lib.BS, lib.BS + 1, 2 * lib.BS, 2*lib.BS + 77, 5 * lib.BS}
var c18Slices = []int{7, 4096, lib.BS - 1, lib.BS, lib.BS + 1, 2*lib.BS + 5, -1, -2}

func c18DKinds(ssize int64) [][2]interface{} {
	nb := int((ssize + lib.BS - 1) / lib.BS)
	out := [][2]interface{}{{"same", 0}}
	for k := 0; k < nb; k++ {
		out = append(out, [2]interface{}{"aligned-prefix", k})
	}
	if ssize > 1 {
		out = append(out, [2]interface{}{"prefix", int(ssize / 2)}, [2]interface{}{"prefix", int(ssize - 1)})
		if ssize > lib.BS {
			out = append(out, [2]interface{}{"prefix", lib.BS + 1}, [2]interface{}{"prefix", lib.BS - 1})
		}
	}
	if nb > 0 && nb <= 5 {
		for m := 1; m < 1<<uint(nb); m++ {
			out = append(out, [2]interface{}{"flip-blocks", m})
		}
	}
	if nb > 0 && nb <= 5 && ssize >= 3 {
		// edits that keep each block's weak (rolling) hash: only the strong hash differs
		for _, m := range []int{1, 1 << uint(nb-1), 1<<uint(nb) - 1} {
			out = append(out, [2]interface{}{"weakkeep-blocks", m})
		}
	}
	if nb >= 2 {
		for b := 0; b < nb; b++ {
			out = append(out, [2]interface{}{"delete-block", b}, [2]interface{}{"dup-block", b})
		}
		for b := 0; b+1 < nb; b++ {
			out = append(out, [2]interface{}{"swap-blocks", b})
		}
	}
	for _, e := range []int{1, lib.BS - 1, lib.BS, lib.BS + 1} {
		out = append(out, [2]interface{}{"extend", e})
	}
	return out
}

func c18Cases(tier string, seed uint64, flavor string) []lib.Case {
	var cases []lib.Case
	modes := []string{"error-stop", "error-continue", "wound", "wound-agg"}
	i := 0
	for _, ss := range c18SSizes {
		for _, dk := range c18DKinds(ss) {
			for si, sl := range c18Slices {
				// quick: rotate modes and thin the slicings; thorough: full product
				if tier != "thorough" && (i+si)%3 != 0 {
					i++
					continue
				}
				ms := modes
				if tier != "thorough" {
					ms = []string{modes[i%4], modes[(i+1)%4]}
				}
				for _, m := range ms {
					s := c18Spec{Seed: lib.Mix(seed, 18, uint64(i)), SSize: ss, DKind: dk[0].(string), Arg: dk[1].(int), Slice: sl, Mode: m}
					cases = append(cases, lib.Case{Seed: s.Seed, Kind: s.DKind + "/" + m, Spec: lib.MustSpec(s)})
				}
				i++
			}
		}
		// 1-byte writes: small S only
		if ss <= lib.BS+1 {
			for _, dk := range c18DKinds(ss) {
				for _, m := range modes {
					s := c18Spec{Seed: lib.Mix(seed, 181, uint64(i)), SSize: ss, DKind: dk[0].(string), Arg: dk[1].(int), Slice: 1, Mode: m}
					cases = append(cases, lib.Case{Seed: s.Seed, Kind: s.DKind + "/" + m, Spec: lib.MustSpec(s)})
					i++
				}
			}
		}
	}
	if tier == "thorough" {
		r := lib.NewRng(lib.Mix(seed, 183))
		for k := 0; k < 30000; k++ {
			ss := r.PickI64([]int64{0, 1, lib.BS - 1, lib.BS, lib.BS + 1, 2 * lib.BS, 3*lib.BS + 77, 6 * lib.BS, int64(r.Range(0, 6*lib.BS))})
			s := c18Spec{Seed: lib.Mix(seed, 184, uint64(k)), SSize: ss, DKind: "random", Slice: r.PickInt(c18Slices), Mode: modes[k%4]}
			if ss <= lib.BS && k%10 == 0 {
				s.Slice = 1
			}
			cases = append(cases, lib.Case{Seed: s.Seed, Kind: "random/" + s.Mode, Spec: lib.MustSpec(s)})
		}
	}
	// two writers of one pool open at the same time, fed alternately
	for _, ss := range []int64{lib.BS + 1, 2 * lib.BS, 3*lib.BS + 77} {
		for _, dk := range c18DKinds(ss) {
			for _, sl := range []int{lib.BS / 2, 4096, lib.BS - 1, lib.BS + 1} {
				if tier != "thorough" && i%3 != 0 {
					i++
					continue
				}
				s := c18Spec{Seed: lib.Mix(seed, 185, uint64(i)), SSize: ss, DKind: dk[0].(string), Arg: dk[1].(int), Slice: sl, Mode: modes[i%2*2], Interleave: true}
				cases = append(cases, lib.Case{Seed: s.Seed, Kind: s.DKind + "/interleaved/" + s.Mode, Spec: lib.MustSpec(s)})
				i++
			}
		}
	}
	// the patcher's way in: a pool bowl whose output pool is the validating pool
	j := 0
	for _, ss := range []int64{0, 1, lib.BS - 1, lib.BS, lib.BS + 1, 2*lib.BS + 77, 5 * lib.BS} {
		for _, dk := range c18DKinds(ss) {
			for _, via := range []string{"bowl-writer", "bowl-transpose"} {
				for mi, m := range []string{"error-stop", "wound", "wound-agg"} {
					j++
					if tier != "thorough" && mi > 0 && j%4 != 0 {
						continue
					}
					s := c18Spec{Seed: lib.Mix(seed, 186, uint64(j)), SSize: ss, DKind: dk[0].(string), Arg: dk[1].(int), Slice: []int{-2, lib.BS + 1, 4096, -1}[(j/3)%4], Mode: m, Via: via}
					cases = append(cases, lib.Case{Seed: s.Seed, Kind: s.DKind + "/" + via + "/" + m, Spec: lib.MustSpec(s)})
				}
			}
		}
	}
	// the file is written twice through one pool (a retry): the second lifetime is judged
	for _, ss := range []int64{lib.BS - 1, lib.BS + 1, 2*lib.BS + 77} {
		for _, dk := range c18DKinds(ss) {
			for mi, m := range modes {
				for pi, pre := range []string{"good-first", "bad-first"} {
					j++
					if tier != "thorough" && (j+mi+pi)%3 != 0 {
						continue
					}
					s := c18Spec{Seed: lib.Mix(seed, 187, uint64(j)), SSize: ss, DKind: dk[0].(string), Arg: dk[1].(int), Slice: []int{-2, lib.BS + 1, 4096, -1}[j%4], Mode: m, Prelude: pre}
					cases = append(cases, lib.Case{Seed: s.Seed, Kind: s.DKind + "/" + pre + "/" + m, Spec: lib.MustSpec(s)})
				}
			}
		}
	}
	// runs of differing blocks around and beyond the 64-block (4 MiB) wound aggregation limit
	big := int64(70*lib.BS + 123)
	for _, run := range []int{63, 64, 65, 66, 69, 70} {
		for _, sl := range []int{lib.BS, 2*lib.BS + 5, -1} {
			for _, m := range []string{"wound-agg", "wound", "error-stop"} {
				s := c18Spec{Seed: lib.Mix(seed, 182, uint64(i)), SSize: big, DKind: "garble-run", Arg: run, Slice: sl, Mode: m}
				cases = append(cases, lib.Case{Seed: s.Seed, Kind: s.DKind + "/" + m, Spec: lib.MustSpec(s)})
				i++
			}
		}
	}
	return cases
}

// recWPool is the inner writable pool: records every write with its offset and Close.
type recWPool struct {
	mu     sync.Mutex
	data   map[int64][]byte
	closed map[int64]bool
	sizes  []int64
}

func (p *recWPool) GetSize(i int64) int64 { return p.sizes[i] }
func (p *recWPool) GetReader(i int64) (io.Reader, error) {
	return bytes.NewReader(p.data[i]), nil
}
func (p *recWPool) GetReadSeeker(i int64) (io.ReadSeeker, error) {
	return bytes.NewReader(p.data[i]), nil
}
func (p *recWPool) Close() error { return nil }
func (p *recWPool) GetWriter(i int64) (io.WriteCloser, error) {
	p.mu.Lock()
	p.data[i], p.closed[i] = nil, false // a writable pool truncates
	p.mu.Unlock()
	return &recW{p: p, i: i}, nil
}

type recW struct {
	p *recWPool
	i int64
}

func (w *recW) Write(b []byte) (int, error) {
	w.p.mu.Lock()
	w.p.data[w.i] = append(w.p.data[w.i], b...)
	w.p.mu.Unlock()
	return len(b), nil
}
func (w *recW) Close() error {
	w.p.mu.Lock()
	w.p.closed[w.i] = true
	w.p.mu.Unlock()
	return nil
}

func blockOf(d []byte, b int) []byte {
	st := b * lib.BS
	if st >= len(d) {
		return nil
	}
	en := st + lib.BS
	if en > len(d) {
		en = len(d)
	}
	return d[st:en]
}

func c18Run(c lib.Case, env *lib.Env) lib.Result {
	var s c18Spec
	lib.ReadSpec(c, &s)
	res := lib.Result{NonTrivial: s.DKind != "same"}
	r := lib.NewRng(s.Seed)
	S := lib.RandomBytes(s.SSize, lib.Mix(s.Seed, 1))
	other := lib.RandomBytes(3*lib.BS+5, lib.Mix(s.Seed, 2)) // a second signed file, so indices are not trivially 0
	nbS := int((s.SSize + lib.BS - 1) / lib.BS)
	var D []byte
	switch s.DKind {
	case "same":
		D = S
	case "aligned-prefix":
		D = S[:s.Arg*lib.BS]
	case "prefix":
		D = S[:s.Arg]
	case "flip-blocks":
		D = append([]byte(nil), S...)
		for b := 0; b < nbS; b++ {
			if s.Arg&(1<<uint(b)) != 0 {
				blk := blockOf(D, b)
				blk[r.Intn(len(blk))] ^= 0x01
			}
		}
	case "weakkeep-blocks":
		D = append([]byte(nil), S...)
		for b := 0; b < nbS; b++ {
			if s.Arg&(1<<uint(b)) == 0 {
				continue
			}
			blk := blockOf(D, b)
			for o := r.Intn(len(blk)/2 + 1); o+3 <= len(blk); o++ {
				if blk[o] < 255 && blk[o+1] >= 2 && blk[o+2] < 255 {
					blk[o], blk[o+1], blk[o+2] = blk[o]+1, blk[o+1]-2, blk[o+2]+1
					break
				}
			}
		}
	case "delete-block":
		D = append(append([]byte(nil), S[:s.Arg*lib.BS]...), S[min(len(S), (s.Arg+1)*lib.BS):]...)
	case "dup-block":
		blk := blockOf(S, s.Arg)
		D = append(append(append([]byte(nil), S[:s.Arg*lib.BS]...), blk...), S[s.Arg*lib.BS:]...)
	case "swap-blocks":
		D = append([]byte(nil), S...)
		a, b := blockOf(S, s.Arg), blockOf(S, s.Arg+1)
		D = append(append(append([]byte(nil), S[:s.Arg*lib.BS]...), b...), a...)
		D = append(D, S[min(len(S), (s.Arg+2)*lib.BS):]...)
	case "extend":
		D = append(append([]byte(nil), S...), lib.RandomBytes(int64(s.Arg), lib.Mix(s.Seed, 3))...)
	case "random": // per block: keep / flip / delete / duplicate; then maybe cut or extend the tail
		D = nil
		for b := 0; b < nbS; b++ {
			blk := append([]byte(nil), blockOf(S, b)...)
			switch r.Intn(8) {
			case 0:
				blk[r.Intn(len(blk))] ^= 0x04
				D = append(D, blk...)
			case 1: // deleted
			case 2:
				D = append(append(D, blk...), blk...)
			default:
				D = append(D, blk...)
			}
		}
		switch r.Intn(5) {
		case 0:
			if len(D) > 0 {
				D = D[:r.Intn(len(D))]
			}
		case 1:
			D = append(D, lib.RandomBytes(int64(r.PickInt([]int{1, 100, lib.BS - 1, lib.BS, lib.BS + 1})), r.Uint64())...)
		}
	case "garble-run": // Arg contiguous differing blocks starting at block 1 (longer than the 4 MiB aggregation limit)
		D = append([]byte(nil), S...)
		for b := 1; b <= s.Arg && b < nbS; b++ {
			blk := blockOf(D, b)
			blk[len(blk)/2] ^= 0x20
		}
	}
	// signature of {other, S} computed by wharf from memory
	cont := &tlc.Container{Files: []*tlc.File{{Path: "Sub/Signed.BIN", Size: int64(len(other)), Mode: 0o644}, {Path: "sub/signed.bin", Size: s.SSize, Mode: 0o644, Offset: int64(len(other))}}, Size: int64(len(other)) + s.SSize}
	hashes, err := pwr.ComputeSignature(context.Background(), cont, &lib.MemPool{Files: [][]byte{other, S}}, lib.Quiet())
	if err != nil {
		res.Inconclusive("sign: " + err.Error())
		return res
	}
	sig := &pwr.SignatureInfo{Container: cont, Hashes: hashes}
	inner := &recWPool{data: map[int64][]byte{}, closed: map[int64]bool{}, sizes: []int64{int64(len(other)), s.SSize}}
	vp := &pwr.ValidatingPool{Pool: inner, Container: cont, Signature: sig}
	woundMode := s.Mode == "wound" || s.Mode == "wound-agg"
	var wounds []*pwr.Wound
	preludeWounds := false
	var wg sync.WaitGroup
	if woundMode {
		vp.Wounds = make(chan *pwr.Wound)
		if s.Mode == "wound-agg" {
			vp.WoundsFilter = func(w chan *pwr.Wound) chan *pwr.Wound { return pwr.AggregateWounds(w, pwr.MaxWoundSize) }
		}
		wg.Add(1)
		go func() {
			defer wg.Done()
			for w := range vp.Wounds {
				wounds = append(wounds, w)
			}
		}()
	}
	// truth
	nbD := (len(D) + lib.BS - 1) / lib.BS
	bstar := -1
	differing := make([]bool, nbD)
	for b := 0; b < nbD; b++ {
		bad := b >= nbS || !bytes.Equal(blockOf(D, b), blockOf(S, b))
		differing[b] = bad
		if bad && bstar < 0 {
			bstar = b
		}
	}
	desc := fmt.Sprintf("|S|=%d D=%s(%d) |D|=%d slice=%d mode=%s b*=%d seed=%d", s.SSize, s.DKind, s.Arg, len(D), s.Slice, s.Mode, bstar, s.Seed)
	if s.Prelude != "" {
		desc += " prelude=" + s.Prelude
		pd := S
		if s.Prelude == "bad-first" {
			pd = append([]byte(nil), S...)
			for b := 0; b < nbS; b++ {
				blockOf(pd, b)[0] ^= 0x80
			}
		}
		pw, perr := vp.GetWriter(1)
		if perr != nil {
			res.Violate("getwriter-error", desc, perr.Error())
			return res
		}
		for o := 0; o < len(pd); o += 50000 {
			if _, werr := pw.Write(pd[o:min(len(pd), o+50000)]); werr != nil {
				break
			}
		}
		perr = pw.Close()
		if s.Prelude == "good-first" && !woundMode && perr != nil {
			res.Violate("valid-data-rejected", desc, "first lifetime (signed content): "+perr.Error())
		}
		if woundMode {
			// everything the first lifetime emitted has been received once this marker has
			sentinel := &pwr.Wound{Index: -77}
			vp.Wounds <- sentinel
			vp.Wounds <- sentinel
			preludeWounds = true
		}
		res.Add("second_lifetimes_of_a_file_in_one_pool", 1)
	}
	var w io.WriteCloser
	var pb bowl.Bowl
	if s.Via != "" {
		desc += " via=" + s.Via
		var tp lake.Pool = &lib.MemPool{Files: [][]byte{D}}
		if s.Slice == -2 {
			tp = &lib.ShortReadPool{Inner: tp, Rng: lib.NewRng(lib.Mix(s.Seed, 9)), EOFWithData: s.Seed%2 == 0}
		}
		tcont := &tlc.Container{Files: []*tlc.File{{Path: "old.bin", Size: int64(len(D)), Mode: 0o644}}, Size: int64(len(D))}
		pb, err = bowl.NewPoolBowl(bowl.PoolBowlParams{TargetContainer: tcont, SourceContainer: cont, TargetPool: tp, OutputPool: vp})
		if err == nil {
			err = pb.Resume(nil)
		}
		if err != nil {
			res.Violate("poolbowl-error", desc, err.Error())
			return res
		}
	}
	switch s.Via {
	case "bowl-writer":
		ew, e := pb.GetWriter(1)
		if e == nil {
			_, e = ew.Resume(nil)
		}
		err = e
		w = &c18EntryW{ew}
	case "bowl-transpose":
	default:
		w, err = vp.GetWriter(1)
	}
	if err != nil {
		res.Violate("getwriter-error", desc, err.Error())
		return res
	}
	var w0 io.WriteCloser
	off0 := 0
	if s.Interleave {
		w0, err = vp.GetWriter(0)
		if err != nil {
			res.Violate("getwriter-error", desc, err.Error())
			return res
		}
	}
	feedOther := func(n int) {
		if w0 == nil || off0 >= len(other) {
			return
		}
		if off0+n > len(other) {
			n = len(other) - off0
		}
		if _, err := w0.Write(other[off0 : off0+n]); err != nil {
			res.Violate("interleaved-valid-writer-rejected", desc, err.Error())
			w0 = nil
			return
		}
		off0 += n
	}
	var firstErr error
	completedAt := 0
	errAt := -1
	off := 0
	for off < len(D) && w != nil {
		feedOther(lib.BS/2 + 11)
		n := s.Slice
		switch {
		case n == -1:
			n = len(D)
		case n == -2:
			n = r.Range(1, 2*lib.BS+9)
		}
		if off+n > len(D) {
			n = len(D) - off
		}
		_, werr := w.Write(D[off : off+n])
		off += n
		if completedAt == 0 && bstar >= 0 && off >= (bstar+1)*lib.BS {
			completedAt = off // this call handed over the last byte of block b*
		}
		if werr != nil && firstErr == nil {
			firstErr = werr
			errAt = off
			if s.Mode == "error-stop" {
				break // ordinary Go code: stop writing after a failed Write, then Close
			}
		}
	}
	if w0 != nil {
		feedOther(len(other))
		if err := w0.Close(); err != nil {
			res.Violate("interleaved-valid-writer-rejected", desc, "close: "+err.Error())
		}
		if !woundMode && !bytes.Equal(inner.data[0], other) {
			res.Violate("interleaved-valid-writer-corrupted", desc, fmt.Sprintf("the other file came through as %d bytes (first diff at %d), want %d", len(inner.data[0]), firstDiffAt(inner.data[0], other), len(other)))
		}
		res.Add("interleaved_writer_pairs", 1)
	}
	var cerr error
	if w != nil {
		cerr = w.Close()
		if ew, ok := w.(*c18EntryW); ok && ew.EntryWriter.Tell() != int64(off) && firstErr == nil {
			res.Violate("entry-writer-tell-wrong", desc, fmt.Sprintf("Tell()=%d after %d bytes", ew.EntryWriter.Tell(), off))
		}
	} else {
		// whole-file copy out of the target pool (io.CopyBuffer decides the write sizes; a failed Write ends the copy)
		cerr = pb.Transpose(bowl.Transposition{TargetIndex: 0, SourceIndex: 1})
		res.Add("transpositions_into_validating_pool", 1)
	}
	if firstErr == nil && cerr != nil {
		firstErr = cerr
		errAt = len(D)
	}
	if pb != nil {
		if e := pb.Commit(); e != nil {
			res.Violate("poolbowl-commit-error", desc, e.Error())
		}
		res.Add("pool_bowl_lifetimes", 1)
	}
	if woundMode {
		close(vp.Wounds)
		wg.Wait()
		if preludeWounds { // keep what came after the marker
			for k := len(wounds) - 1; k >= 0; k-- {
				if wounds[k].Index == -77 {
					wounds = wounds[k+1:]
					break
				}
			}
		}
	}
	res.Add("writer_lifetimes", 1)
	got := inner.data[1]
	if !woundMode {
		if bstar >= 0 {
			res.Add("lifetimes_with_bad_block", 1)
			if firstErr == nil {
				res.Violate("bad-block-not-reported", desc, "no Write/Close error although block b* differs from the signed block")
			} else if s.Mode == "error-stop" && s.Via == "" && completedAt > 0 && errAt > completedAt {
				res.Violate("completing-write-did-not-fail", desc, fmt.Sprintf("the Write that ended at offset %d completed block b*=%d but returned nil; the error came with the call ending at %d", completedAt, bstar, errAt))
			}
			limit := bstar * lib.BS
			if len(got) > limit {
				res.Violate("bad-block-forwarded", desc, fmt.Sprintf("inner pool holds %d bytes, nothing at or beyond offset %d may reach it (Write error at %d: %v, Close error: %v)", len(got), limit, errAt, firstErr, cerr))
			} else if s.Mode == "error-stop" || true {
				if !bytes.Equal(got, D[:len(got)]) {
					res.Violate("inner-bytes-differ", desc, fmt.Sprintf("inner pool bytes differ from D at %d", firstDiffAt(got, D)))
				}
				if len(got) != limit && firstErr != nil && s.Mode == "error-stop" && errAt >= (bstar+1)*lib.BS {
					// every block before b* was complete and valid by the time the error surfaced
					res.Violate("valid-prefix-lost", desc, fmt.Sprintf("inner pool holds %d bytes, want the %d valid bytes before block b*", len(got), limit))
				}
			}
		} else {
			if firstErr != nil {
				res.Violate("valid-data-rejected", desc, firstErr.Error())
			}
			if !bytes.Equal(got, D) {
				res.Violate("valid-data-not-passed-through", desc, fmt.Sprintf("inner pool holds %d bytes (first diff at %d), want %d", len(got), firstDiffAt(got, D), len(D)))
			}
		}
		if !inner.closed[1] {
			res.Violate("inner-writer-not-closed", desc)
		}
	} else {
		if firstErr != nil {
			res.Violate("wound-mode-error", desc, firstErr.Error())
		}
		res.Add("wounds_and_markers_seen", int64(len(wounds)))
		// ordering / tiling below L
		L := int64(nbD) * lib.BS
		if s.SSize < L {
			L = s.SSize
		}
		if s.Interleave {
			// markers of the other (valid) file arrive on the same channel: they must all be healthy
			var mine []*pwr.Wound
			for _, wd := range wounds {
				if wd.Index == 0 {
					if wd.Kind != pwr.WoundKind_CLOSED_FILE {
						res.Violate("interleaved-valid-writer-wounded", desc, fmt.Sprintf("%v", wd))
					}
					continue
				}
				mine = append(mine, wd)
			}
			wounds = mine
		}
		var prevEnd int64
		for i, wd := range wounds {
			if wd.Index != 1 {
				res.Violate("wound-wrong-file", desc, fmt.Sprintf("%v", wd))
			}
			if wd.Kind != pwr.WoundKind_FILE && wd.Kind != pwr.WoundKind_CLOSED_FILE {
				res.Violate("wound-wrong-kind", desc, fmt.Sprintf("%v", wd))
			}
			if wd.Start < prevEnd && i > 0 {
				res.Violate("wounds-out-of-order-or-overlapping", desc, woundList(wounds))
				break
			}
			if wd.Start > prevEnd && prevEnd < L {
				res.Violate("wounds-leave-gap", desc, fmt.Sprintf("gap [%d,%d) below L=%d", prevEnd, wd.Start, L), woundList(wounds))
				break
			}
			if wd.End > prevEnd {
				prevEnd = wd.End
			}
		}
		if prevEnd < L {
			res.Violate("wounds-do-not-reach-signed-length", desc, fmt.Sprintf("covered up to %d, L=%d", prevEnd, L), woundList(wounds))
		}
		// exactly the differing blocks are FILE wounds
		for b := 0; b < nbD && b < nbS; b++ {
			st := int64(b) * lib.BS
			kind := pwr.WoundKind(-1)
			for _, wd := range wounds {
				if st >= wd.Start && st < wd.End {
					kind = wd.Kind
				}
			}
			want := pwr.WoundKind_CLOSED_FILE
			if differing[b] {
				want = pwr.WoundKind_FILE
			}
			if kind != want {
				res.Violate("wound-marks-wrong-block", desc, fmt.Sprintf("block %d: differing=%v but marked %v", b, differing[b], kind), woundList(wounds))
				break
			}
		}
		if nbD > nbS { // blocks beyond the signed count must be wounds
			n := 0
			for _, wd := range wounds {
				if wd.Kind == pwr.WoundKind_FILE && wd.Start >= int64(nbS)*lib.BS {
					n++
				}
			}
			if n == 0 && !(s.Mode == "wound-agg" && bstar >= 0 && bstar < nbS) {
				res.Violate("no-wound-beyond-signed-blocks", desc, woundList(wounds))
			}
		}
	}
	res.Feat = []string{fmt.Sprintf("S=%d|%s|slice=%d|%s%s%s", s.SSize, s.DKind, s.Slice, s.Mode, s.Via, s.Prelude)}
	if c.ID%211 == 0 {
		res.Sample = map[string]interface{}{"signedSize": s.SSize, "written": s.DKind, "arg": s.Arg, "writtenLen": len(D), "slice": s.Slice, "mode": s.Mode, "firstBadBlock": bstar, "innerBytes": len(got), "wounds": len(wounds)}
	}
	return res
}

// c18EntryW drives a bowl entry writer the way the patcher does: Write..., Finalize, Close.
type c18EntryW struct{ bowl.EntryWriter }

func (w *c18EntryW) Close() error {
	ferr := w.EntryWriter.Finalize()
	cerr := w.EntryWriter.Close()
	if ferr != nil {
		return ferr
	}
	return cerr
}

func woundList(ws []*pwr.Wound) string {
	out := ""
	for i, w := range ws {
		if i > 12 {
			out += " ..."
			break
		}
		out += fmt.Sprintf(" %v[%d,%d)", w.Kind, w.Start, w.End)
	}
	return out
}

func min(a, b int) int {
	if a < b {
		return a
	}
	return b
}

func init() {
	lib.Register(&lib.Property{
		ID:          "C18",
		Level:       "exploration",
		Rule:        "signed content S of {0,1,B-1,B,B+1,2B,2B+77,5B} bytes; written data D = S, every block-aligned prefix, non-aligned prefixes, S with one flipped bit in every non-empty subset of its blocks (<=5 blocks), S with a +1/-2/+1 edit (weak hash of the block unchanged) in the first / last / every block, one block deleted / duplicated / two adjacent swapped (a wrong block then equals the next signed block), S extended by {1,B-1,B,B+1}; write slicings {1 (small S), 7, 4096, B-1, B, B+1, 2B+5, all, random}; modes: error (driver stops after a failed Write and Closes; or ignores the error and keeps writing), wound (raw and through AggregateWounds). A second lifetime of the same file in the same pool (after a complete good or bad first one) is judged the same way. The same (S, D) classes are also written the patcher's way: through a pool bowl whose output pool is the validating pool, by its entry writer (Resume(nil), Write.., Finalize, Close, Tell checked) and by Transpose out of a target pool holding D (plain and short-reading). The inner pool records every byte it receives. Oracle: block-wise comparison against S by the harness. distinct = distinct (|S|, D kind, slicing, mode)",
		Assumptions: []string{"blocks beyond the signed block count are only required to be wounds, their ranges are not judged", "with the aggregating filter a beyond-signed wound may be merged into a preceding wound"},
		Cases:       c18Cases,
		Run:         c18Run,
		Batch:       100,
	})
}
