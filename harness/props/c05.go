package props

import (
	"bytes"
	"context"
	"fmt"
	"os"
	"path/filepath"
	"sort"
	"strings"
	"time"

	"github.com/itchio/lake/pools/fspool"
	"github.com/itchio/wharf/pwr"
	"verif/lib"
)

// C05 — validation reports and locates every deviation (DESIGN §5 C05).

type c05Spec struct {
	Build   string       `json:"build"` // small | nested | big
	Seed    uint64       `json:"seed"`
	Damages []lib.Damage `json:"damages"`
	// Sibling: the validator contexts of this case have been used before, on a pristine SIBLING build (same paths and
	// sizes, every byte xor 0xa5) with the sibling's own signature
	Sibling bool `json:"sibling,omitempty"`
}

// valBuild returns the reference builds used by C05/C06/C16.
func valBuild(name string, seed uint64) *lib.Build {
	b := lib.NewBuild()
	r := lib.NewRng(lib.Mix(seed, 505))
	rb := func(n int64) []byte { return lib.RandomBytes(n, r.Uint64()) }
	switch name {
	case "big":
		b.PutFile("big.bin", rb(9*lib.MB+1234))
		b.PutFile("small.bin", rb(10))
		b.PutFile("d/aligned.bin", rb(2*lib.BS))
	case "wide":
		for i := 0; i < 1100; i++ {
			b.PutDir(fmt.Sprintf("w%02d/d%04d", i%40, i))
		}
		for i := 0; i < 40; i++ {
			b.PutSymlink(fmt.Sprintf("w%02d/lnk", i), fmt.Sprintf("d%04d", i))
		}
		b.PutFile("w00/d0000/f.bin", rb(3000))
		b.PutFile("w39/g.bin", rb(lib.BS+5))
	case "nested":
		b.PutDir("another-hollow")
		b.PutFile("dir with space/ünï çødé 日本.bin", rb(lib.BS+7))
		b.PutFile("top.bin", rb(3*lib.BS+100))
		b.PutFile("sub/one.bin", rb(lib.BS))
		b.PutFile("sub/deep/two.bin", rb(lib.BS+1))
		b.PutFile("sub/deep/empty.bin", nil)
		// the sibling mirrors sub/: same child names, some with identical content (a directory
		// replaced by a symlink to it then looks partly valid when read through the link)
		b.PutFile("sib/one.bin", b.E["sub/one.bin"].Data)
		b.PutFile("sib/deep/two.bin", rb(888))
		b.PutFile("sib/deep/empty.bin", nil)
		b.PutDir("sib/hollow2")
		b.PutDir("hollow")
		b.PutDir("sub/hollow2")
		b.PutSymlink("lnk-file", "top.bin")
		b.PutSymlink("sub/lnk-dir", "deep")
		b.PutSymlink("dangling", "nowhere/at/all")
		// legal destinations that are not in their shortest form: carried verbatim
		b.PutSymlink("lnk-odd-dot", "./top.bin")
		b.PutSymlink("sub/lnk-odd-up", "../sub/deep/")
		b.PutSymlink("lnk-odd-slashes", "sub//deep/./two.bin")
		b.PutSymlink("sib/lnk-dir", "deep") // the look-alike sibling holds links of the same name and destination
		b.PutSymlink("sib/lnk-odd-up", "../sub/deep/")
	case "allempty":
		// every file is empty: the container's total size is 0 although it has files, directories and links
		b.PutFile("a.empty", nil)
		b.PutFile("d/b.empty", nil)
		b.PutFile("d/e/c.empty", nil)
		b.PutFile("z.empty", nil)
		b.PutDir("hollow")
		b.PutSymlink("lnk", "a.empty")
	default: // small
		b.PutFile("e.bin", nil)
		b.PutFile("t.bin", rb(10))
		b.PutFile("b1.bin", rb(lib.BS))
		b.PutFile("b2.bin", rb(2*lib.BS))
		b.PutFile("b3p.bin", rb(3*lib.BS+100))
		b.PutFile("m1.bin", rb(lib.BS-1))
		b.PutFile("t-twin.bin", b.E["t.bin"].Data)   // same bytes as t.bin
		b.PutFile("b2-twin.bin", b.E["b2.bin"].Data) // same bytes as b2.bin
		// three identical consecutive blocks + a tail (padding / a repeated record)
		blk := rb(lib.BS)
		b.PutFile("rep3.bin", append(append(append(append([]byte(nil), blk...), blk...), blk...), blk[:777]...))
		b.PutSymlink("lnk", "t.bin")
		b.PutSymlink("lnk-odd", "./emptydir/../t.bin")
		b.PutDir("emptydir")
		b.PutDir("emptydir2")
	}
	return b
}

func treeDamages(b *lib.Build) []lib.Damage {
	var out []lib.Damage
	nExt := 0
	for _, e := range b.Sorted() {
		switch e.Kind {
		case lib.KFile:
			out = append(out, lib.FileDamages(e.Path, int64(len(e.Data)))...)
			// replaced by a symlink to ANOTHER file holding exactly the signed bytes (only the kind tells)
			for _, o := range b.Sorted() {
				if o.Kind == lib.KFile && o.Path != e.Path && len(e.Data) > 0 && bytes.Equal(o.Data, e.Data) {
					if rel, err := filepath.Rel(filepath.Dir(e.Path), o.Path); err == nil {
						out = append(out, lib.Damage{Op: "tosymlink", Path: e.Path, S: rel})
					}
					break
				}
			}
			// grown by more than the 4 MiB wound aggregation limit
			if nExt < 2 && len(e.Data) > 0 && len(e.Data) < lib.MB {
				nExt++
				out = append(out, lib.Damage{Op: "extend", Path: e.Path, N: 4*lib.MB + 2*lib.BS + 5}, lib.Damage{Op: "extend", Path: e.Path, N: 9 * lib.MB})
			}
		case lib.KDir:
			out = append(out, lib.Damage{Op: "rmtree", Path: e.Path}, lib.Damage{Op: "tofile", Path: e.Path},
				lib.Damage{Op: "tosymlink", Path: e.Path, S: "nowhere"}, lib.Damage{Op: "emptydir", Path: e.Path})
			if e.Path == "sub" {
				out = append(out, lib.Damage{Op: "tosymlink", Path: e.Path, S: "sib"}) // sibling with equal child names
			}
			// replaced by a symlink to some OTHER existing directory (only the directory wound can tell)
			for _, o := range b.Sorted() {
				if o.Kind == lib.KDir && o.Path != e.Path && !strings.HasPrefix(o.Path, e.Path+"/") && !strings.HasPrefix(e.Path, o.Path+"/") {
					rel, err := filepath.Rel(filepath.Dir(e.Path), o.Path)
					if err == nil {
						out = append(out, lib.Damage{Op: "tosymlink", Path: e.Path, S: rel})
						break
					}
				}
			}
		case lib.KSymlink:
			// retargeted to another SPELLING of the signed destination (the destination string is what is signed)
			for _, sp := range []string{"./" + e.Dest, e.Dest + "/", "x/../" + e.Dest, filepath.Clean(e.Dest)} {
				if sp != e.Dest {
					out = append(out, lib.Damage{Op: "retarget", Path: e.Path, S: sp})
				}
			}
			out = append(out, lib.Damage{Op: "rmsymlink", Path: e.Path}, lib.Damage{Op: "retarget", Path: e.Path, S: e.Dest + "x"},
				lib.Damage{Op: "tofile", Path: e.Path}, lib.Damage{Op: "todir", Path: e.Path}, lib.Damage{Op: "tononemptydir", Path: e.Path})
		}
	}
	return out
}

func c05Cases(tier string, seed uint64, flavor string) []lib.Case {
	var cases []lib.Case
	builds := []string{"small", "nested"}
	nb := 1
	if tier == "thorough" {
		nb = 30
	}
	for bi := 0; bi < nb; bi++ {
		for _, name := range append(append([]string(nil), builds...), "allempty") {
			if name == "allempty" && bi > 0 {
				continue // no random content in it: one instance per seed
			}
			bs := lib.Mix(seed, 5, uint64(bi))
			b := valBuild(name, bs)
			ds := treeDamages(b)
			cases = append(cases, lib.Case{Kind: "undamaged", Spec: lib.MustSpec(c05Spec{Build: name, Seed: bs})})
			for _, d := range ds {
				cases = append(cases, lib.Case{Kind: "single:" + d.Op, Spec: lib.MustSpec(c05Spec{Build: name, Seed: bs, Damages: []lib.Damage{d}})})
			}
			// combinations of 2-5 damages on distinct paths
			r := lib.NewRng(lib.Mix(bs, 55))
			ncombo := 30
			if tier == "thorough" {
				ncombo = 500
			}
			for i := 0; i < ncombo; i++ {
				k := r.Range(2, 5)
				used := map[string]bool{}
				var combo []lib.Damage
				for try := 0; len(combo) < k && try < 50; try++ {
					d := ds[r.Intn(len(ds))]
					conflict := false
					for u := range used {
						if u == d.Path || strings.HasPrefix(u, d.Path+"/") || strings.HasPrefix(d.Path, u+"/") {
							conflict = true
						}
					}
					if !conflict {
						used[d.Path] = true
						combo = append(combo, d)
					}
				}
				cases = append(cases, lib.Case{Kind: "combo", Spec: lib.MustSpec(c05Spec{Build: name, Seed: bs, Damages: combo})})
			}
		}
	}
	// validator contexts that were used before on a sibling build (same layout, other content, other signature)
	for _, name := range builds {
		bs := lib.Mix(seed, 5, 0)
		b := valBuild(name, bs)
		cases = append(cases, lib.Case{Kind: "sibling:undamaged", Spec: lib.MustSpec(c05Spec{Build: name, Seed: bs, Sibling: true})})
		for _, e := range b.Files() {
			nb := (int64(len(e.Data)) + lib.BS - 1) / lib.BS
			for k := int64(0); k < nb && k < 4; k++ {
				n := int64(len(e.Data)) - k*lib.BS
				if n > lib.BS {
					n = lib.BS
				}
				// a whole block that now holds what the SIBLING has there
				cases = append(cases, lib.Case{Kind: "sibling:block", Spec: lib.MustSpec(c05Spec{Build: name, Seed: bs, Sibling: true,
					Damages: []lib.Damage{{Op: "garble", Path: e.Path, N: k * lib.BS, S: fmt.Sprint(n)}}})})
			}
		}
		r := lib.NewRng(lib.Mix(bs, 56))
		ds := treeDamages(b)
		for i := 0; i < 25; i++ {
			cases = append(cases, lib.Case{Kind: "sibling:single", Spec: lib.MustSpec(c05Spec{Build: name, Seed: bs, Sibling: true, Damages: []lib.Damage{ds[r.Intn(len(ds))]}})})
		}
	}
	// two damages in the SAME file: a length change plus a content change below both lengths; and weak-hash-preserving
	// edits in each of several identical consecutive blocks
	{
		bs := lib.Mix(seed, 5, 0)
		b := valBuild("small", bs)
		for _, e := range b.Files() {
			n := int64(len(e.Data))
			if n < 3 {
				continue
			}
			for _, lc := range []lib.Damage{{Op: "truncate", Path: e.Path, N: n - 1}, {Op: "truncate", Path: e.Path, N: n/2 + 1}, {Op: "extend", Path: e.Path, N: 1}, {Op: "extend", Path: e.Path, N: lib.BS + 3}} {
				limit := n
				if lc.Op == "truncate" {
					limit = lc.N
				}
				for _, off := range []int64{0, limit / 2, limit - 1} {
					if off < 0 || off >= limit {
						continue
					}
					cases = append(cases, lib.Case{Kind: "samefile:" + lc.Op + "+flip", Spec: lib.MustSpec(c05Spec{Build: "small", Seed: bs,
						Damages: []lib.Damage{{Op: "flip", Path: e.Path, N: off}, lc}})})
				}
			}
		}
		for blk := int64(0); blk < 4; blk++ {
			cases = append(cases, lib.Case{Kind: "single:weakkeep-repeated-block", Spec: lib.MustSpec(c05Spec{Build: "small", Seed: bs,
				Damages: []lib.Damage{{Op: "weakkeep", Path: "rep3.bin", N: blk*lib.BS + 5}}})})
		}
	}
	// the 9 MiB build: a reduced damage list (its block count makes the full list expensive)
	bigSeed := lib.Mix(seed, 59)
	bb := valBuild("big", bigSeed)
	for _, d := range treeDamages(bb) {
		if tier != "thorough" && d.Path != "big.bin" {
			continue
		}
		cases = append(cases, lib.Case{Kind: "single:" + d.Op, Spec: lib.MustSpec(c05Spec{Build: "big", Seed: bigSeed, Damages: []lib.Damage{d}})})
	}
	return cases
}

// signBuild materializes b into dir and returns its signature info as wharf computes it.
func signBuild(b *lib.Build, dir string) (*pwr.SignatureInfo, error) {
	if err := b.Materialize(dir); err != nil {
		return nil, err
	}
	c, err := lib.Walk(dir)
	if err != nil {
		return nil, err
	}
	h, err := pwr.ComputeSignature(context.Background(), c, fspool.New(c, dir), lib.Quiet())
	if err != nil {
		return nil, err
	}
	return &pwr.SignatureInfo{Container: c, Hashes: h}, nil
}

type interval struct{ a, b int64 }

func covered(ivs []interval, off int64) bool {
	for _, iv := range ivs {
		if off >= iv.a && off < iv.b {
			return true
		}
	}
	return false
}

func c05Run(c lib.Case, env *lib.Env) lib.Result {
	var s c05Spec
	lib.ReadSpec(c, &s)
	res := lib.Result{NonTrivial: len(s.Damages) > 0}
	ref := valBuild(s.Build, s.Seed)
	dir := filepath.Join(env.Scratch, "tree")
	sig, err := signBuild(ref, dir)
	if err != nil {
		res.Inconclusive("sign: " + err.Error())
		return res
	}
	var classes []string
	for _, d := range s.Damages {
		if err := lib.ApplyDamage(dir, d); err != nil {
			res.Inconclusive("damage " + d.String() + ": " + err.Error())
			return res
		}
		classes = append(classes, d.Class())
	}
	sort.Strings(classes)
	got, err := lib.ReadTree(dir)
	if err != nil {
		res.Inconclusive(err.Error())
		return res
	}
	truth := lib.DiffBuilds(got, ref, true) // deviations of signed entries, judged by effect
	deviates := len(truth) > 0
	desc := fmt.Sprintf("build=%s damages=%v", s.Build, s.Damages)

	// contexts that have been used before (on the sibling build) or fresh ones
	ffCtx := &pwr.ValidatorContext{FailFast: true, Consumer: lib.Quiet()}
	wp := filepath.Join(env.Scratch, "wounds.pww")
	vctx := &pwr.ValidatorContext{WoundsPath: wp, Consumer: lib.Quiet()}
	var sibFF, sibV func() error
	if s.Sibling {
		// the consumer goroutines of the calls on the sibling build stay parked (bounded) until the judged calls run
		defer lib.SetHook(nil)
		sib := lib.NewBuild()
		for _, e := range ref.Sorted() {
			switch e.Kind {
			case lib.KFile:
				d := append([]byte(nil), e.Data...)
				for i := range d {
					d[i] ^= 0xa5
				}
				sib.PutFile(e.Path, d)
			case lib.KDir:
				sib.PutDir(e.Path)
			case lib.KSymlink:
				sib.PutSymlink(e.Path, e.Dest)
			}
		}
		sibDir := filepath.Join(env.Scratch, "sibling")
		sibSig, err := signBuild(sib, sibDir)
		if err != nil {
			res.Inconclusive("sign sibling: " + err.Error())
			return res
		}
		newHold := func() *lib.Sched {
			h := lib.NewSched("none", 0)
			h.HoldPoint, h.HoldMax = "val-consumer-returned", 3*time.Second
			lib.SetHook(h)
			return h
		}
		// wounds-file context: sibling first; its judged call follows further down (holdV is released there)
		holdF := newHold()
		if err := ffCtx.Validate(context.Background(), sibDir, sibSig); err != nil {
			res.Violate("failfast-rejects-valid", desc, "pristine sibling build: "+err.Error())
		}
		sibFF = func() error {
			defer holdF.Finish()
			return ffCtx.Validate(context.Background(), dir, sig)
		}
		sibV = func() error {
			holdV := newHold()
			defer holdV.Finish()
			if err := vctx.Validate(context.Background(), sibDir, sibSig); err != nil {
				res.Violate("validate-error-on-valid", desc, "pristine sibling build: "+err.Error())
			}
			os.Remove(wp)
			return vctx.Validate(context.Background(), dir, sig)
		}
		res.Add("cases_with_validator_contexts_used_before_on_a_sibling_build", 1)
	}
	// fail-fast mode
	var ffErr error
	special := false
	for _, d := range s.Damages {
		special = special || d.Op == "tofifo"
	}
	if special {
		// a special file in the tree: termination is C16's property, here a watchdog only keeps the check from stalling
		v := lib.RunWithQuiescence(func() { ffErr = pwr.AssertValid(dir, sig) }, 20*time.Second)
		if !v.Returned {
			res.Violate("validate-does-not-return", desc, v.Report)
			return res
		}
	} else if s.Sibling {
		ffErr = sibFF()
	} else {
		ffErr = pwr.AssertValid(dir, sig)
	}
	res.Add("failfast_validations", 1)
	if deviates && ffErr == nil {
		res.Violate("failfast-declares-damaged-valid", desc, "deviations: "+strings.Join(lib.DiffStrings(truth, 5), "; "))
	}
	if !deviates && ffErr != nil {
		res.Violate("failfast-rejects-valid", desc, ffErr.Error())
	}
	// wounds-file mode
	var verr error
	if s.Sibling {
		verr = sibV()
	} else {
		verr = vctx.Validate(context.Background(), dir, sig)
	}
	res.Add("wounds_validations", 1)
	if verr != nil {
		// "not declared valid": coverage clauses are not evaluated for this case
		res.Add("validate_returned_error", 1)
		res.SetAdd("validate_error_classes", strings.Join(classes, "+"))
		if !deviates {
			res.Violate("validate-error-on-valid", desc, verr.Error())
		}
	} else {
		var wounds []*pwr.Wound
		if wb, err := os.ReadFile(wp); err == nil {
			_, ws, derr := lib.DecodeWounds(wb)
			if derr != nil {
				res.Violate("wounds-file-grammar", desc, derr.Error())
			}
			wounds = ws
		}
		res.Add("wounds_seen", int64(len(wounds)))
		has := vctx.WoundsConsumer != nil && vctx.WoundsConsumer.HasWounds()
		if deviates && (len(wounds) == 0 || !has) {
			res.Violate("no-wound-for-damaged", desc, fmt.Sprintf("wounds=%d HasWounds=%v", len(wounds), has), "deviations: "+strings.Join(lib.DiffStrings(truth, 5), "; "))
		}
		if !deviates && (len(wounds) > 0 || has) {
			res.Violate("wound-on-valid", desc, fmt.Sprintf("%v", wounds))
		}
		// well-formedness
		byFile := map[int64][]interval{}
		for _, w := range wounds {
			var n int
			switch w.Kind {
			case pwr.WoundKind_FILE:
				n = len(sig.Container.Files)
				byFile[w.Index] = append(byFile[w.Index], interval{w.Start, w.End})
			case pwr.WoundKind_DIR:
				n = len(sig.Container.Dirs)
			case pwr.WoundKind_SYMLINK:
				n = len(sig.Container.Symlinks)
			default:
				res.Violate("wound-unknown-kind", desc, fmt.Sprintf("%v", w))
				continue
			}
			if w.Index < 0 || w.Index >= int64(n) {
				res.Violate("wound-index-out-of-range", desc, fmt.Sprintf("%v (list has %d)", w, n))
			}
			if w.Start < 0 || w.End < w.Start {
				res.Violate("wound-range-malformed", desc, fmt.Sprintf("kind=%v index=%d start=%d end=%d", w.Kind, w.Index, w.Start, w.End))
			}
		}
		// every signed directory that is not a directory now, and every signed symlink that is missing / of another kind /
		// points elsewhere, is named by a wound of ITS kind and index
		hasWound := func(kind pwr.WoundKind, idx int) bool {
			for _, w := range wounds {
				if w.Kind == kind && w.Index == int64(idx) {
					return true
				}
			}
			return false
		}
		for di, d := range sig.Container.Dirs {
			if g := got.E[d.Path]; g == nil || g.Kind != lib.KDir {
				res.Add("deviating_directories_checked", 1)
				if !hasWound(pwr.WoundKind_DIR, di) {
					res.Violate("deviating-directory-without-its-wound", desc, fmt.Sprintf("directory %s (index %d) deviates, no DIR wound names it", d.Path, di))
					break
				}
			}
		}
		for si, l := range sig.Container.Symlinks {
			if g := got.E[l.Path]; g == nil || g.Kind != lib.KSymlink || g.Dest != l.Dest {
				res.Add("deviating_symlinks_checked", 1)
				if !hasWound(pwr.WoundKind_SYMLINK, si) {
					res.Violate("deviating-symlink-without-its-wound", desc, fmt.Sprintf("symlink %s (index %d) deviates, no SYMLINK wound names it", l.Path, si))
					break
				}
			}
		}
		// coverage of differing offsets, per signed file that is a regular file at its own path
		for fi, f := range sig.Container.Files {
			want := ref.E[f.Path]
			g := got.E[f.Path]
			if g == nil || g.Kind != lib.KFile {
				continue
			}
			n := len(g.Data)
			if len(want.Data) < n {
				n = len(want.Data)
			}
			for off := 0; off < n; off++ {
				if g.Data[off] != want.Data[off] {
					res.Add("differing_offsets_checked", 1)
					if !covered(byFile[int64(fi)], int64(off)) {
						res.Violate("differing-offset-not-covered", desc, fmt.Sprintf("%s offset %d differs, wounds for it: %v", f.Path, off, byFile[int64(fi)]))
						break
					}
					// skip to the end of this block: one probe per differing block keeps long tails cheap
					off = (off/lib.BS+1)*lib.BS - 1
				}
			}
			if len(g.Data) != len(want.Data) {
				res.Add("length_changed_files_checked", 1)
				if len(byFile[int64(fi)]) == 0 {
					res.Violate("length-change-without-wound", desc, fmt.Sprintf("%s is %d bytes, signed %d, no wound for it", f.Path, len(g.Data), len(want.Data)))
				}
			}
		}
	}
	res.Feat = []string{s.Build + "|" + strings.Join(classes, "+") + "|" + damageShape(s.Damages)}
	res.SetAdd("damage_classes", strings.Join(classes, "+"))
	if c.ID%97 == 1 {
		res.Sample = map[string]interface{}{"build": s.Build, "damages": s.Damages, "deviations": lib.DiffStrings(truth, 3), "failfast_error": ffErr != nil, "validate_error": verr != nil}
	}
	return res
}

// damageShape abstracts offsets into boundary classes so that distinct counts stay meaningful.
func damageShape(ds []lib.Damage) string {
	var out []string
	for _, d := range ds {
		cl := ""
		switch d.Op {
		case "flip", "truncate", "extend", "fill", "weakkeep":
			switch {
			case d.N == 0:
				cl = "0"
			case d.N%lib.BS == 0:
				cl = "k*B"
			case d.N%lib.BS == lib.BS-1:
				cl = "k*B-1"
			case d.N%lib.BS == 1:
				cl = "k*B+1"
			default:
				cl = "mid"
			}
		}
		out = append(out, d.Path+":"+cl)
	}
	return strings.Join(out, ",")
}

func init() {
	lib.Register(&lib.Property{
		ID:          "C05",
		Level:       "fault_enumeration",
		Rule:        "for each reference build (files of 0, 10, 64K-1, 64K, 128K, 3*64K+100 bytes, 9 MiB; nested dirs; symlinks incl. dangling and to a directory; a build whose files are ALL empty, total size 0) every damage of the boundary list is applied alone (bit flips at first/last byte of every block, truncation to every block boundary ±1, extension inside/up to/past the last block, fill of empty files, delete, kind swaps incl. directory -> symlink to a sibling with equal child names, retarget/delete symlinks, retarget to another SPELLING of the signed destination, a +1/-2/+1 edit that keeps the block's weak hash) plus random combinations of 2-5 damages; each damaged tree is validated fail-fast and in wounds-file mode; truth = byte-wise comparison of the damaged tree with the reference; wounds are read from the .pww file by the independent decoder. Case groups: a length change plus a bit flip below both lengths in the SAME file; weak-hash-preserving edits in each of three identical consecutive blocks; a group reuses validator contexts that validated a pristine sibling build (same paths and sizes, every byte xor 0xa5, own signature) before, with damages that put the sibling's bytes into whole blocks. distinct = distinct (build, damage classes, path + boundary class of the offset)",
		Assumptions: []string{"a non-nil error from non-fail-fast Validate counts as 'not declared valid' and leaves the coverage clauses unevaluated for that case (counted)", "offsets at or beyond the damaged file's own length are covered by the length clause, not the per-offset clause"},
		Cases:       c05Cases,
		Run:         c05Run,
		Batch:       25,
	})
}
