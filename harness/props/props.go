// Package props holds one monitor per property (c01.go ... c19.go); each
// registers itself with lib.Register in an init function.
package props
