package props

import (
	"fmt"
	"path/filepath"
	"sort"

	"github.com/itchio/lake"
	"github.com/itchio/lake/tlc"
	"github.com/itchio/savior/seeksource"
	"github.com/itchio/wharf/pwr/patcher"
	"verif/lib"
)

// C01 — diff then apply reproduces the new build (DESIGN §5 C01).

type c01Spec struct {
	PairSeed   uint64      `json:"pairSeed"`
	Opts       lib.GenOpts `json:"opts"`
	Comps      []lib.Comp  `json:"comps"`
	ShortReads bool        `json:"shortReads"`
}

func genOptsFor(r *lib.Rng, i int, bigEvery int) lib.GenOpts {
	o := lib.GenOpts{KindSwaps: i%3 == 0}
	if bigEvery > 0 && i%bigEvery == bigEvery-1 {
		o.BigBudget = 1
	}
	if i%40 == 17 {
		o.ManyTiny = true
	}
	if i%40 == 29 {
		o.WrapEdit = true
		o.MaxFiles = 2
	}
	if i%40 == 33 || i%40 == 13 {
		o.HeaderThenFresh = true
		o.MaxFiles = 2
	}
	if i%5 == 2 {
		o.MaxFile = 3 * lib.BS
		o.MaxFiles = 9
	}
	return o
}

func c01Cases(tier string, seed uint64, flavor string) []lib.Case {
	n, bigEvery := 160, 80
	if tier == "thorough" {
		n, bigEvery = 12000, 40
	}
	if flavor != "plain" {
		n, bigEvery = n/10, 0
	}
	comps := lib.AllComps()
	if flavor == "asan" {
		// the C encoder is what ASan can see
		comps = nil
		for q := 0; q <= 11; q++ {
			comps = append(comps, lib.Comp{Algo: "brotli", Quality: q})
		}
	}
	var cases []lib.Case
	r := lib.NewRng(lib.Mix(seed, 101))
	ci := r.Intn(len(comps))
	for i := 0; i < n; i++ {
		s := c01Spec{PairSeed: lib.Mix(seed, 1, uint64(i)), Opts: genOptsFor(r, i, bigEvery), ShortReads: i%2 == 1}
		for k := 0; k < 3; k++ {
			s.Comps = append(s.Comps, comps[ci%len(comps)]) // round robin: every setting occurs
			ci++
		}
		cases = append(cases, lib.Case{Seed: s.PairSeed, Kind: "pair", Spec: lib.MustSpec(s)})
	}
	// a completely empty directory on either side (or both)
	for k, o := range []lib.GenOpts{{EmptyOld: true}, {EmptyNew: true}, {EmptyOld: true, EmptyNew: true}} {
		s := c01Spec{PairSeed: lib.Mix(seed, 1001, uint64(k)), Opts: o, Comps: []lib.Comp{comps[0], comps[len(comps)/2], comps[len(comps)-1]}}
		cases = append(cases, lib.Case{Seed: s.PairSeed, Kind: "empty-side", Spec: lib.MustSpec(s)})
	}
	return cases
}

// containerProblems compares a tlc container with an independently read tree.
func containerProblems(c *tlc.Container, b *lib.Build, which string) []string {
	var out []string
	files, dirs, links := map[string]int64{}, map[string]bool{}, map[string]string{}
	for _, f := range c.Files {
		files[f.Path] = f.Size
	}
	for _, d := range c.Dirs {
		dirs[d.Path] = true
	}
	for _, s := range c.Symlinks {
		links[s.Path] = s.Dest
	}
	n := 0
	for _, e := range b.Sorted() {
		switch e.Kind {
		case lib.KFile:
			sz, ok := files[e.Path]
			if !ok || sz != int64(len(e.Data)) {
				out = append(out, fmt.Sprintf("%s container: file %s size %d, tree has %d (present=%v)", which, e.Path, sz, len(e.Data), ok))
			}
			n++
		case lib.KDir:
			if !dirs[e.Path] {
				out = append(out, fmt.Sprintf("%s container: dir %s missing", which, e.Path))
			}
			n++
		case lib.KSymlink:
			if d, ok := links[e.Path]; !ok || d != e.Dest {
				out = append(out, fmt.Sprintf("%s container: symlink %s -> %q, tree has %q", which, e.Path, d, e.Dest))
			}
			n++
		}
	}
	if n != len(files)+len(dirs)+len(links) {
		out = append(out, fmt.Sprintf("%s container has %d entries, tree has %d", which, len(files)+len(dirs)+len(links), n))
	}
	return out
}

func c01Run(c lib.Case, env *lib.Env) lib.Result {
	var s c01Spec
	lib.ReadSpec(c, &s)
	res := lib.Result{}
	pair := lib.GenPair(s.PairSeed, s.Opts)
	oldDir, newDir := filepath.Join(env.Scratch, "old"), filepath.Join(env.Scratch, "new")
	if err := pair.Old.Materialize(oldDir); err != nil {
		res.Inconclusive("materialize old: " + err.Error())
		return res
	}
	if err := pair.New.Materialize(newDir); err != nil {
		res.Inconclusive("materialize new: " + err.Error())
		return res
	}
	res.NonTrivial = pair.NonTrivial()
	sig := pair.Signature()
	for ci, comp := range s.Comps {
		var wrap lib.PoolWrap
		if s.ShortReads {
			wrap = func(p lake.Pool) lake.Pool {
				return &lib.ShortReadPool{Inner: p, Rng: lib.NewRng(lib.Mix(s.PairSeed, 7, uint64(ci))), EOFWithData: ci == 1}
			}
		}
		var dr *lib.DiffResult
		lib.StoredOldSig = (c.ID+ci)%3 == 2
		err, panicked, stack := lib.Guard(func() error {
			var e error
			dr, e = lib.DiffDirs(oldDir, newDir, comp, wrap, nil, nil)
			return e
		})
		if lib.StoredOldSig {
			res.Add("diffs_against_a_stored_signature", 1)
		}
		lib.StoredOldSig = false
		if panicked {
			res.Violate("diff-panic", err.Error(), stack)
			continue
		}
		if err != nil {
			res.Violate("diff-error", comp.String(), err.Error())
			continue
		}
		res.Add("diffs", 1)
		res.Add("patch_bytes", int64(len(dr.Patch)))
		// trace specification of the patch stream
		ps, derr := lib.DecodePatch(dr.Patch)
		if derr != nil {
			res.Violate("patch-grammar", comp.String(), derr.Error())
		} else {
			res.Add("series_decoded", int64(len(ps.Series)))
			if pr := containerProblems(ps.Old, pair.Old, "old"); len(pr) > 0 {
				res.Violate("patch-container", pr...)
			}
			if pr := containerProblems(ps.New, pair.New, "new"); len(pr) > 0 {
				res.Violate("patch-container", pr...)
			}
			if ps.Header.Compression.Algorithm != comp.Settings().Algorithm || ps.Header.Compression.Quality != int32(comp.Quality) {
				res.Violate("patch-header", fmt.Sprintf("header says %v, asked %v", ps.Header.Compression, comp))
			}
		}
		out := filepath.Join(env.Scratch, fmt.Sprintf("out%d", ci))
		var stale *lib.StalePool
		if ci == 2 {
			// the old-build pool hands a reader it has handed out just before back at an arbitrary position
			lib.TargetPoolWrap = func(p lake.Pool) lake.Pool {
				stale = &lib.StalePool{Inner: p, Rng: lib.NewRng(lib.Mix(s.PairSeed, 8))}
				return stale
			}
		}
		defer func() { lib.TargetPoolWrap = nil }()
		err, panicked, stack = lib.Guard(func() error {
			if ci == 1 {
				// the library's one-call entry point
				res.Add("applies_through_patchfresh", 1)
				return patcher.PatchFresh(patcher.PatchFreshParams{PatchReader: seeksource.FromBytes(dr.Patch), TargetDir: oldDir, OutputDir: out, Consumer: lib.Quiet()})
			}
			return lib.ApplyFresh(dr.Patch, oldDir, out)
		})
		lib.TargetPoolWrap = nil
		if stale != nil {
			res.Add("applies_over_a_stale_position_pool", 1)
			res.Add("stale_position_pool_readers_moved", stale.Moved)
		}
		if panicked {
			res.Violate("apply-panic", err.Error(), stack)
			continue
		}
		if err != nil {
			res.Violate("apply-error", comp.String(), err.Error())
			continue
		}
		got, rerr := lib.ReadTree(out)
		if rerr != nil {
			res.Inconclusive("read out tree: " + rerr.Error())
			continue
		}
		if ds := lib.DiffBuilds(got, pair.New, false); len(ds) > 0 {
			res.Violate("tree-mismatch:"+diffKinds(ds), append([]string{comp.String()}, lib.DiffStrings(ds, 8)...)...)
		}
		res.Add("applies", 1)
		res.Add("bytes_compared", pair.New.TotalSize())
		res.Feat = append(res.Feat, sig+"|"+comp.String())
		res.SetAdd("compression_settings", comp.String())
	}
	for _, f := range pair.FeatList() {
		res.SetAdd("relations", f)
	}
	if c.ID < 4 {
		res.Sample = map[string]interface{}{"pairSeed": s.PairSeed, "relations": pair.FeatList(),
			"old_entries": len(pair.Old.E), "new_entries": len(pair.New.E), "new_bytes": pair.New.TotalSize(),
			"comps": s.Comps, "shortReads": s.ShortReads}
	}
	return res
}

func diffKinds(ds []lib.TreeDiff) string {
	m := map[string]bool{}
	for _, d := range ds {
		m[d.What] = true
	}
	var ks []string
	for k := range m {
		ks = append(ks, k)
	}
	sort.Strings(ks)
	out := ""
	for i, k := range ks {
		if i > 0 {
			out += ","
		}
		out += k
	}
	return out
}

func init() {
	lib.Register(&lib.Property{
		ID:          "C01",
		Level:       "exploration",
		Rule:        "pairs drawn by the build-pair generator (boundary sizes, content classes, file/tree relations, kind swaps); each pair diffed with the real ComputeSignature+WritePatch under 3 compression settings (round robin over all 25) and applied with patcher+fresh bowl into an empty directory; oracle = independent tree comparison + independent decode of the patch against the framing grammar. distinct = distinct (relation-set signature, compression setting) among pairs with at least one relation other than 'unchanged'",
		Assumptions: []string{"protobuf runtime and generated message types are shared with wharf", "tlc.WalkAny is used to build containers (cross-checked against an independent walk)", "case-sensitive Linux file system"},
		Flavors: func(tier string) []string {
			if tier == "thorough" {
				return []string{"plain", "race", "asan"}
			}
			return []string{"plain"}
		},
		Cases: c01Cases,
		Run:   c01Run,
		Batch: 20,
		Post: func(rs []lib.Result, ev *lib.Evidence) []string {
			if n, _ := ev.Coverage["observed_sets"].(map[string]int)["distinct:compression_settings"]; n < 25 && ev.Tier != "" {
				return []string{fmt.Sprintf("only %d of 25 compression settings were exercised", n)}
			}
			return nil
		},
	})
}
