package props

import (
	"bytes"
	"encoding/gob"
	"fmt"
	"io"

	"github.com/golang/protobuf/proto"
	"github.com/itchio/savior/seeksource"
	"github.com/itchio/wharf/bsdiff"
	"github.com/itchio/wharf/pwr"
	"github.com/itchio/wharf/wire"
	pkgerrors "github.com/pkg/errors"
	"verif/lib"
)

// C13 — messages survive any compression setting; reader checkpoints resume exactly (DESIGN §5 C13).

type c13Spec struct {
	Seed     uint64   `json:"seed"`
	Pattern  string   `json:"pattern"`
	Comp     lib.Comp `json:"comp"`
	Save     string   `json:"save"`     // every | every2 | every7 | once-each | none
	PopEvery int      `json:"popEvery"` // PopCheckpoint is only called at every n-th message boundary (a consumer whose ShouldSave answers false in between)
}

var c13Sizes = []int{0, 1, 127, 128, 16383, 16384, 32764, 32765, 32766, 32767, 32768, 32769, 32770, 32771, 65535, 65536, 65537, 1*lib.MB - 1, 1 * lib.MB, 1*lib.MB + 1}
var c13Patterns = []string{"boundary-mix", "large-then-small", "growing", "all-empty", "many-small", "huge", "types", "huger", "exact-encoded"}

func c13Messages(seed uint64, pattern string) []proto.Message {
	r := lib.NewRng(lib.Mix(seed, 1313))
	payload := func(n int) []byte {
		if n == 0 {
			return nil
		}
		if r.Bool() {
			return lib.RandomBytes(int64(n), r.Uint64())
		}
		return lib.MakeContent(lib.CPeriod, int64(n), r.Uint64()%4, r) // compressible
	}
	dataOp := func(n int) proto.Message { return &pwr.SyncOp{Type: pwr.SyncOp_DATA, Data: payload(n)} }
	// exactEnc returns a data op whose ENCODED (framed) length is exactly n bytes
	exactEnc := func(n int) proto.Message {
		for pl := n - 12; pl <= n; pl++ {
			if pl < 0 {
				continue
			}
			m := &pwr.SyncOp{Type: pwr.SyncOp_DATA, Data: lib.RandomBytes(int64(pl), r.Uint64())}
			if proto.Size(m) == n {
				return m
			}
		}
		return dataOp(n)
	}
	var out []proto.Message
	switch pattern {
	case "exact-encoded":
		// encoded lengths exactly on, one below and one above the reader's growth steps, in growing order (each one
		// is larger than any buffer allocated so far) and then shrinking again; and around the writer-side small sizes
		maxK := 20
		if seed%3 == 0 {
			maxK = 22 // 4 MiB: the largest message the differ writes
		}
		for k := 7; k <= maxK; k++ {
			for _, d := range []int{-1, 0, 1} {
				out = append(out, exactEnc(1<<uint(k)+d))
			}
		}
		for _, n := range []int{4094, 4095, 4096, 4097, 127, 128, 129, 16383, 16384, 16385, 16511, 16512} {
			out = append(out, exactEnc(n))
		}
	case "boundary-mix":
		n := r.Range(8, 40)
		for i := 0; i < n; i++ {
			out = append(out, dataOp(r.PickInt(c13Sizes[:17])))
		}
	case "large-then-small":
		out = append(out, dataOp(r.PickInt([]int{65537, 1 * lib.MB, 4*lib.MB + 1})))
		n := r.Range(10, 60)
		for i := 0; i < n; i++ {
			out = append(out, dataOp(r.Range(0, 200)))
		}
	case "growing": // monotone growing across every power of two
		for sz := 1; sz <= 2*lib.MB; sz *= 2 {
			out = append(out, dataOp(sz-1), dataOp(sz), dataOp(sz+1))
		}
	case "all-empty":
		n := r.Range(2, 64)
		for i := 0; i < n; i++ {
			out = append(out, &pwr.SyncOp{}) // encodes to 0 bytes
		}
	case "many-small":
		n := r.Range(100, 400)
		for i := 0; i < n; i++ {
			out = append(out, &pwr.SyncOp{Type: pwr.SyncOp_BLOCK_RANGE, FileIndex: int64(r.Intn(5)), BlockIndex: int64(r.Intn(1000)), BlockSpan: int64(r.Range(0, 9))})
		}
	case "huge":
		out = append(out, dataOp(4*lib.MB), dataOp(4*lib.MB+1), dataOp(3), dataOp(0), dataOp(32768))
	case "huger": // nothing in the format bounds a message: bsdiff controls carry whole add/copy regions
		out = append(out, dataOp(100), dataOp(4*lib.MB+65), &bsdiff.Control{Add: payload(5*lib.MB + 17), Copy: payload(3), Seek: -7}, dataOp(0),
			&bsdiff.Control{Copy: payload(r.PickInt([]int{6 * lib.MB, 9*lib.MB + 1}))}, dataOp(1))
	case "sized": // >= 44 MiB so that brotli q>=4 emits checkpoints at all
		for i := 0; i < 460; i++ {
			out = append(out, &pwr.SyncOp{Type: pwr.SyncOp_DATA, Data: lib.RandomBytes(int64(96*lib.KB+i%5), r.Uint64())})
		}
	default: // types: every message kind the streams carry
		n := r.Range(10, 50)
		for i := 0; i < n; i++ {
			switch r.Intn(5) {
			case 0:
				out = append(out, &pwr.SyncHeader{FileIndex: int64(r.Intn(3)), Type: pwr.SyncHeader_Type(r.Intn(2))})
			case 1:
				out = append(out, &bsdiff.Control{Add: payload(r.Range(0, 40000)), Copy: payload(r.Range(0, 40000)), Seek: int64(r.Range(-5000, 5000)), Eof: r.Chance(0.1)})
			case 2:
				out = append(out, &pwr.BlockHash{WeakHash: r.Uint32(), StrongHash: payload(16)})
			case 3:
				out = append(out, &pwr.SyncOp{Type: pwr.SyncOp_HEY_YOU_DID_IT})
			default:
				out = append(out, dataOp(r.PickInt(c13Sizes[:17])))
			}
		}
	}
	return out
}

func c13Cases(tier string, seed uint64, flavor string) []lib.Case {
	var cases []lib.Case
	comps := lib.AllComps()
	nseq := 12
	if tier == "thorough" {
		nseq = 300
	}
	if flavor == "asan" {
		comps = nil
		for q := 0; q <= 11; q++ {
			comps = append(comps, lib.Comp{Algo: "brotli", Quality: q})
		}
		nseq = 6
	}
	saves := []string{"every", "every2", "every7", "once-each"}
	i := 0
	for _, comp := range comps {
		for q := 0; q < nseq; q++ {
			pat := c13Patterns[q%len(c13Patterns)]
			if (pat == "huge" || pat == "huger") && comp.Algo == "brotli" && comp.Quality >= 10 && (q >= len(c13Patterns) || pat == "huger") {
				pat = "boundary-mix" // brotli q10/11 on many MiB is too slow to repeat
			}
			if pat == "exact-encoded" && tier != "thorough" && comp.Quality >= 6 {
				pat = "boundary-mix" // several MiB per sequence: fast settings only in the quick tier
			}
			s := c13Spec{Seed: lib.Mix(seed, 13, uint64(q)), Pattern: pat, Comp: comp, Save: saves[i%len(saves)], PopEvery: []int{1, 1, 2, 3, 5}[i%5]}
			i++
			cases = append(cases, lib.Case{Seed: s.Seed, Kind: pat, Spec: lib.MustSpec(s)})
		}
	}
	if flavor == "plain" {
		// sizing for brotli q>=4 (checkpoints only every ~8-16 MiB) and one per other class
		sized := []lib.Comp{{Algo: "brotli", Quality: 4}, {Algo: "gzip", Quality: 6}, {Algo: "none"}}
		if tier == "thorough" {
			sized = append(sized, lib.Comp{Algo: "brotli", Quality: 6}, lib.Comp{Algo: "brotli", Quality: 9}, lib.Comp{Algo: "brotli", Quality: 1})
		}
		for _, comp := range sized {
			cases = append(cases, lib.Case{Kind: "sized", Spec: lib.MustSpec(c13Spec{Seed: lib.Mix(seed, 131), Pattern: "sized", Comp: comp, Save: "every7"})})
		}
	}
	return cases
}

func c13Write(msgs []proto.Message, comp lib.Comp) ([]byte, error) {
	var buf bytes.Buffer
	raw := wire.NewWriteContext(&buf)
	if err := raw.WriteMagic(pwr.PatchMagic); err != nil {
		return nil, err
	}
	if err := raw.WriteMessage(&pwr.PatchHeader{Compression: comp.Settings()}); err != nil {
		return nil, err
	}
	w, err := pwr.CompressWire(raw, comp.Settings())
	if err != nil {
		return nil, err
	}
	for _, m := range msgs {
		if err := w.WriteMessage(m); err != nil {
			return nil, err
		}
	}
	if err := w.Close(); err != nil {
		return nil, err
	}
	return buf.Bytes(), nil
}

func c13Open(stream []byte) (*wire.ReadContext, error) {
	src := seeksource.FromBytes(stream)
	if _, err := src.Resume(nil); err != nil {
		return nil, err
	}
	raw := wire.NewReadContext(src)
	if err := raw.ExpectMagic(pwr.PatchMagic); err != nil {
		return nil, err
	}
	h := &pwr.PatchHeader{}
	if err := raw.ReadMessage(h); err != nil {
		return nil, err
	}
	return pwr.DecompressWire(raw, h.Compression)
}

// reusedMsgs hands out ONE message value per type, the way the patcher and the optimizer
// read (they reuse their op / control structs): a read that leaves stale fields behind shows.
type reusedMsgs struct {
	op   pwr.SyncOp
	sh   pwr.SyncHeader
	ctrl bsdiff.Control
	bh   pwr.BlockHash
}

func (r *reusedMsgs) like(m proto.Message) proto.Message {
	switch m.(type) {
	case *pwr.SyncOp:
		return &r.op
	case *pwr.SyncHeader:
		return &r.sh
	case *bsdiff.Control:
		return &r.ctrl
	case *pwr.BlockHash:
		return &r.bh
	}
	return nil
}

func isEOF(err error) bool {
	return err != nil && (err == io.EOF || pkgerrors.Cause(err) == io.EOF)
}

func c13Run(c lib.Case, env *lib.Env) lib.Result {
	var s c13Spec
	lib.ReadSpec(c, &s)
	res := lib.Result{NonTrivial: true}
	msgs := c13Messages(s.Seed, s.Pattern)
	desc := fmt.Sprintf("pattern=%s comp=%s save=%s messages=%d seed=%d", s.Pattern, s.Comp, s.Save, len(msgs), s.Seed)
	stream, err := c13Write(msgs, s.Comp)
	if err != nil {
		res.Violate("write-error", desc, err.Error())
		return res
	}
	res.Add("streams_written", 1)
	res.Add("stream_bytes", int64(len(stream)))
	// the independent decoder must agree on what was written (compressor side)
	type cpRec struct {
		next int
		enc  []byte
		lag  bool
		held *wire.MessageReaderCheckpoint
	}
	// hold: the consumer keeps the popped checkpoints and serializes them only after the pass (odd cases)
	hold := c.ID%2 == 1
	encode := func(cp *wire.MessageReaderCheckpoint) []byte {
		var gb bytes.Buffer
		if err := gob.NewEncoder(&gb).Encode(cp); err != nil {
			res.Violate("checkpoint-not-gob-encodable", desc, err.Error())
			return nil
		}
		return gb.Bytes()
	}
	// one pass per save position for "once-each" (every boundary of sequences <= 64 messages), else a single pass
	var passes [][]bool
	n := len(msgs)
	switch s.Save {
	case "once-each":
		if n <= 64 {
			for i := 0; i <= n; i++ {
				w := make([]bool, n+1)
				w[i] = true
				passes = append(passes, w)
			}
		} else {
			w := make([]bool, n+1)
			w[n/2] = true
			passes = append(passes, w)
		}
	default:
		k := map[string]int{"every": 1, "every2": 2, "every7": 7}[s.Save]
		w := make([]bool, n+1)
		for i := 0; i <= n; i++ {
			w[i] = i%k == 0
		}
		passes = append(passes, w)
	}
	var cps []cpRec
	wantBefore := 0
	for pi, want := range passes {
		rctx, err := c13Open(stream)
		if err != nil {
			res.Violate("open-error", desc, err.Error())
			return res
		}
		reuse := &reusedMsgs{}
		for i := 0; i <= n; i++ {
			if want[i] {
				rctx.WantSave()
				wantBefore++
			}
			// the patcher's pattern: WantSave, then PopCheckpoint, then ReadMessage - but only when its
			// consumer wants to save, so a pop may come several messages after the checkpoint was made
			popNow := s.PopEvery <= 1 || i%s.PopEvery == 0 || i == n
			if i == n && (c.ID+pi)%2 == 0 {
				popNow = false // this consumer saves when it is done: the last pop comes AFTER end-of-stream was reported
			}
			var cp *wire.MessageReaderCheckpoint
			if popNow {
				cp = rctx.PopCheckpoint()
			}
			if cp != nil {
				lag := cp.SourceCheckpoint != nil && cp.SourceCheckpoint.Offset < cp.Offset
				if hold {
					cps = append(cps, cpRec{next: i, lag: lag, held: cp})
				} else if enc := encode(cp); enc != nil {
					cps = append(cps, cpRec{next: i, enc: enc, lag: lag})
				}
			}
			if i == n {
				break
			}
			got := reuse.like(msgs[i])
			if err := rctx.ReadMessage(got); err != nil {
				res.Violate("read-error", desc, fmt.Sprintf("pass %d message %d of %d: %v", pi, i, n, err))
				return res
			}
			if !proto.Equal(got, msgs[i]) {
				res.Violate("read-mismatch", desc, fmt.Sprintf("pass %d message %d of %d read back differently (payload %d bytes)", pi, i, n, proto.Size(msgs[i])))
				return res
			}
			res.Add("messages_compared", 1)
		}
		rctx.WantSave() // asked once more, so that a checkpoint can arrive while end-of-stream is discovered
		extra := &pwr.SyncOp{}
		if err := rctx.ReadMessage(extra); !isEOF(err) {
			res.Violate("no-eof-after-last-message", desc, fmt.Sprintf("pass %d: ReadMessage after the last message returned %v", pi, err))
			return res
		}
		// a consumer that saves when it is done: pop once more AFTER end-of-stream was reported
		if cp := rctx.PopCheckpoint(); cp != nil {
			if enc := encode(cp); enc != nil {
				cps = append(cps, cpRec{next: n, enc: enc})
				res.Add("checkpoints_popped_after_end_of_stream", 1)
			}
		}
		for k := range cps {
			if cps[k].held != nil {
				cps[k].enc = encode(cps[k].held)
				cps[k].held = nil
				res.Add("checkpoints_serialized_after_the_pass", 1)
			}
		}
		// the source that has just been read to its end is resumed again (new reader over the SAME source object):
		// from nothing, and from the first / middle / last checkpoint of this pass
		if pi == len(passes)-1 {
			picks := []int{-1}
			if len(cps) > 0 {
				picks = append(picks, len(cps)-1)
				if len(stream) < 8*lib.MB {
					picks = append(picks, 0, len(cps)/2)
				}
			}
			for _, k := range picks {
				from := 0
				var mc *wire.MessageReaderCheckpoint
				if k >= 0 {
					if cps[k].enc == nil {
						continue
					}
					mc = &wire.MessageReaderCheckpoint{}
					if err := gob.NewDecoder(bytes.NewReader(cps[k].enc)).Decode(mc); err != nil {
						continue
					}
					from = cps[k].next
				}
				again := wire.NewReadContext(rctx.GetSource())
				if err := again.Resume(mc); err != nil {
					res.Violate("reused-source:resume-error", desc, fmt.Sprintf("source read to its end, resumed before message %d of %d (nil checkpoint: %v): %v", from, n, mc == nil, err))
					continue
				}
				okAgain := true
				ru := &reusedMsgs{}
				for i := from; i < n; i++ {
					got := ru.like(msgs[i])
					if err := again.ReadMessage(got); err != nil {
						res.Violate("reused-source:read-error", desc, fmt.Sprintf("source read to its end, resumed before message %d: reading message %d of %d: %v", from, i, n, err))
						okAgain = false
						break
					}
					if !proto.Equal(got, msgs[i]) {
						res.Violate("reused-source:read-mismatch", desc, fmt.Sprintf("source read to its end, resumed before message %d: message %d of %d differs", from, i, n))
						okAgain = false
						break
					}
				}
				if okAgain {
					if err := again.ReadMessage(&pwr.SyncOp{}); !isEOF(err) {
						res.Violate("reused-source:no-eof", desc, fmt.Sprintf("resumed before message %d: after the last message got %v", from, err))
					}
				}
				res.Add("resumes_of_a_source_already_read_to_its_end", 1)
			}
		}
	}
	// a reader that is itself rewound: saves are requested while some messages are read WITHOUT popping, then the same
	// reader is resumed from an earlier checkpoint and read to the end with pops at every boundary
	if len(cps) > 0 && n >= 3 && len(stream) < 3*lib.MB {
		early := cps[0]
		for _, cp := range cps {
			if cp.next <= n/2 && cp.next > early.next {
				early = cp
			}
		}
		mc := &wire.MessageReaderCheckpoint{}
		if early.enc != nil && gob.NewDecoder(bytes.NewReader(early.enc)).Decode(mc) == nil {
			if rctx, err := c13Open(stream); err == nil {
				reuse := &reusedMsgs{}
				ok := true
				for i := 0; i < n && i < early.next+3 && ok; i++ {
					if i > early.next {
						rctx.WantSave() // the checkpoint the reader ends up holding is from a LATER position than the rewind target
					}
					got := reuse.like(msgs[i])
					if err := rctx.ReadMessage(got); err != nil || !proto.Equal(got, msgs[i]) {
						ok = false // judged by the passes above
					}
				}
				if ok {
					if err := rctx.Resume(mc); err != nil {
						res.Violate("rewound-reader:resume-error", desc, fmt.Sprintf("same reader resumed before message %d: %v", early.next, err))
						ok = false
					}
				}
				for i := early.next; ok && i <= n; i++ {
					rctx.WantSave()
					if cp := rctx.PopCheckpoint(); cp != nil {
						if enc := encode(cp); enc != nil {
							cps = append(cps, cpRec{next: i, enc: enc})
							res.Add("checkpoints_popped_from_a_rewound_reader", 1)
						}
					}
					if i == n {
						break
					}
					got := reuse.like(msgs[i])
					if err := rctx.ReadMessage(got); err != nil {
						res.Violate("rewound-reader:read-error", desc, fmt.Sprintf("same reader resumed before message %d, reading message %d of %d: %v", early.next, i, n, err))
						ok = false
					} else if !proto.Equal(got, msgs[i]) {
						res.Violate("rewound-reader:read-mismatch", desc, fmt.Sprintf("same reader resumed before message %d: message %d of %d differs", early.next, i, n))
						ok = false
					}
				}
				if ok {
					if err := rctx.ReadMessage(&pwr.SyncOp{}); !isEOF(err) {
						res.Violate("rewound-reader:no-eof", desc, fmt.Sprintf("after the last message got %v", err))
					}
				}
				res.Add("readers_rewound_and_read_to_the_end", 1)
			}
		}
	}
	res.Add("checkpoints_popped", int64(len(cps)))
	// resume every popped checkpoint in a brand-new reader over the same bytes
	for _, cp := range cps {
		mc := &wire.MessageReaderCheckpoint{}
		if err := gob.NewDecoder(bytes.NewReader(cp.enc)).Decode(mc); err != nil {
			res.Violate("checkpoint-not-gob-decodable", desc, err.Error())
			continue
		}
		rctx, err := c13Open(stream)
		if err != nil {
			res.Violate("open-error", desc, err.Error())
			continue
		}
		if err := rctx.Resume(mc); err != nil {
			res.Violate("resume-error", desc, fmt.Sprintf("checkpoint before message %d of %d (offset %d, source offset %d): %v", cp.next, n, mc.Offset, srcOff(mc), err))
			continue
		}
		ok := true
		reuse := &reusedMsgs{}
		for i := cp.next; i < n; i++ {
			got := reuse.like(msgs[i])
			if err := rctx.ReadMessage(got); err != nil {
				res.Violate("resumed-read-error", desc, fmt.Sprintf("resumed before message %d, reading message %d of %d: %v", cp.next, i, n, err))
				ok = false
				break
			}
			if !proto.Equal(got, msgs[i]) {
				res.Violate("resumed-read-mismatch", desc, fmt.Sprintf("resumed before message %d: message %d of %d differs", cp.next, i, n))
				ok = false
				break
			}
		}
		if ok {
			if err := rctx.ReadMessage(&pwr.SyncOp{}); !isEOF(err) {
				res.Violate("resumed-no-eof", desc, fmt.Sprintf("resumed before message %d: after the last message got %v", cp.next, err))
			}
		}
		res.Add("checkpoints_resumed", 1)
		if cp.lag {
			res.Add("resumed_with_lagging_source_offset", 1)
			res.SetAdd("algorithms_with_lagging_resume", s.Comp.Algo)
		}
	}
	if len(cps) == 0 && wantBefore >= 8 {
		res.Add("sequences_without_checkpoint", 1)
	}
	if s.Pattern == "sized" && len(cps) == 0 {
		res.Violate("no-checkpoint-on-sized-sequence", desc, fmt.Sprintf("%d save requests, 0 checkpoints popped over %d bytes", wantBefore, len(stream)))
	}
	res.SetAdd("compression_settings", s.Comp.String())
	res.Feat = []string{fmt.Sprintf("%s|%s|%s|pop%d", s.Pattern, s.Comp, s.Save, s.PopEvery)}
	if s.PopEvery > 1 {
		res.Add("sequences_with_delayed_pops", 1)
	}
	if c.ID%41 == 0 {
		res.Sample = map[string]interface{}{"pattern": s.Pattern, "comp": s.Comp.String(), "save": s.Save, "messages": n, "streamBytes": len(stream), "checkpointsPopped": len(cps)}
	}
	return res
}

func srcOff(mc *wire.MessageReaderCheckpoint) int64 {
	if mc.SourceCheckpoint == nil {
		return -1
	}
	return mc.SourceCheckpoint.Offset
}

func init() {
	lib.Register(&lib.Property{
		ID:          "C13",
		Level:       "exploration",
		Rule:        "message sequences (SyncOp/SyncHeader/Control/BlockHash; payload sizes from {0,1,127,128,16383,16384,32764..32771,65535..65537,1M-1,1M,1M+1,4M,4M+1}; patterns exact-encoded (framed lengths exactly 2^k-1, 2^k, 2^k+1 for k = 7..20 (..22 for a third of the seeds), 4094..4097, 16383..16512), boundary-mix, large-then-small, growing across every power of two, all-empty, many-small, huge, types) written through wire.WriteContext + pwr.CompressWire under every registered setting (NONE; GZIP -2..9; BROTLI 0..11) and read back through DecompressWire + ReadContext; save schedules every / every 2nd / every 7th message and, for sequences <= 64 messages, one pass per message boundary with a single save request there; every popped checkpoint is gob round-tripped and resumed in a brand-new reader over the same bytes and must deliver exactly the remaining messages then EOF (in odd cases the popped checkpoint objects are held and only serialized after the whole pass); the source that was read to its end is then resumed again through a new reader - from nil and from the first/middle/last checkpoint - and must deliver the same; a pop after end-of-stream was reported, and the pops of a reader that was itself rewound (saves requested but not popped, then Resume from an earlier checkpoint on the same reader) are verified the same way; one >= 44 MiB sequence per slow-checkpointing class. ASan pass over the brotli settings (C encoder). distinct = distinct (pattern, setting, save schedule)",
		Assumptions: []string{"WantSave/PopCheckpoint are driven in the patcher's pattern (request, pop, read)", "compressed sources only checkpoint at block boundaries: a sequence that pops no checkpoint is counted, not failed, except on the purpose-sized sequences"},
		Flavors:     func(tier string) []string { return []string{"plain", "asan"} },
		Cases:       c13Cases,
		Run:         c13Run,
		Batch:       6,
		CaseBudget:  600 * 1e9,
		Post: func(rs []lib.Result, ev *lib.Evidence) []string {
			var out []string
			sets, _ := ev.Coverage["observed_sets"].(map[string]int)
			if sets["distinct:compression_settings"] < 25 {
				out = append(out, fmt.Sprintf("only %d of 25 settings exercised", sets["distinct:compression_settings"]))
			}
			if sets["distinct:algorithms_with_lagging_resume"] < 2 {
				out = append(out, fmt.Sprintf("a checkpoint with a lagging source offset was resumed for only %d of the 2 compressed algorithms", sets["distinct:algorithms_with_lagging_resume"]))
			}
			return out
		},
	})
}
