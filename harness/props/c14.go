package props

import (
	"bytes"
	"encoding/binary"
	"fmt"
	"io"
	"os"
	"path/filepath"

	"encoding/gob"

	"github.com/golang/protobuf/proto"
	"github.com/itchio/lake/tlc"
	"github.com/itchio/savior/seeksource"
	"github.com/itchio/wharf/pwr/bowl"
	"github.com/itchio/wharf/pwr/overlay"
	"verif/lib"
)

// C14 — an overlay turns the old file into the new file, whatever the write pattern (DESIGN §5 C14).

type c14Spec struct {
	Seed uint64 `json:"seed"`
	// Bowl: the overlay is produced and applied by the overlay bowl (entry writer Save/Resume sessions, Commit)
	Bowl bool `json:"bowl,omitempty"`
}

func c14Cases(tier string, seed uint64, flavor string) []lib.Case {
	n := 700
	if tier == "thorough" {
		n = 30000
	}
	var cases []lib.Case
	for i := 0; i < n; i++ {
		cases = append(cases, lib.Case{Seed: lib.Mix(seed, 14, uint64(i)), Kind: "overlay", Spec: lib.MustSpec(c14Spec{Seed: lib.Mix(seed, 14, uint64(i))})})
	}
	for i := 0; i < n/3; i++ {
		cases = append(cases, lib.Case{Seed: lib.Mix(seed, 141, uint64(i)), Kind: "overlay-bowl", Spec: lib.MustSpec(c14Spec{Seed: lib.Mix(seed, 141, uint64(i)), Bowl: true})})
	}
	return cases
}

var c14SharedCtx = &overlay.OverlayPatchContext{}

var c14EqualRuns = []int{1, 100, 8191, 8192, 8193, 8194, 20000, 131071, 131072, 131073, 300000}
var c14WriteSizes = []int{1, 7, 4096, 8191, 8192, 8193, 131071, 131072, 131073, 300000, -1}

// c14Contents assembles an (old, new) pair from equal and differing runs (see Rule).
func c14Contents(r *lib.Rng) (old, nw []byte, shape []string, forced []int, lenRel string, small bool) {
	// --- build old/new from runs
	small = r.Chance(0.25) // 1-byte write patterns are expensive: small files only
	budget := r.PickInt([]int{0, 1000, 128 * lib.KB, 128*lib.KB + 5, 300000, 600000})
	if small {
		budget = r.Range(0, 64*lib.KB)
	}
	for len(nw) < budget {
		if r.Bool() {
			n := r.PickInt(c14EqualRuns)
			if small && n > 20000 {
				n = r.PickInt(c14EqualRuns[:6])
			}
			d := lib.RandomBytes(int64(n), r.Uint64())
			old = append(old, d...)
			nw = append(nw, d...)
			shape = append(shape, fmt.Sprintf("eq%d", n))
		} else {
			n := r.PickInt([]int{1, 50, 5000, 70000})
			d := lib.RandomBytes(int64(n), r.Uint64())
			e := lib.RandomBytes(int64(n), r.Uint64())
			if r.Chance(0.4) { // equal except every ~k-th byte
				e = append([]byte(nil), d...)
				k := r.PickInt([]int{2, 100, 8000, 9000})
				for i := k - 1; i < len(e); i += k {
					e[i] ^= 0x5a
				}
				shape = append(shape, fmt.Sprintf("sparse%d/%d", n, k))
			} else {
				shape = append(shape, fmt.Sprintf("diff%d", n))
			}
			old = append(old, d...)
			nw = append(nw, e...)
		}
	}
	// forced: new-content offsets where a write must end and a flush happens
	lenRel = "same-length"
	if r.Chance(0.3) {
		// shifted content: new = old[:a] + inserted + old[a:] (or with a deletion), so that equal data
		// sits at different offsets in old and new; writes end (and flush) exactly at the edit points
		m := r.PickInt([]int{20000, 128 * lib.KB, 300000, 500000})
		if small {
			m = r.Range(9000, 60000)
		}
		old = lib.RandomBytes(int64(m), r.Uint64())
		a := r.PickInt([]int{0, 0, 1, 8193, m / 2})
		if a > m {
			a = m
		}
		k := r.PickInt([]int{1, 100, 8192, 8193, 50000, 131071, 131072})
		if r.Chance(0.7) {
			nw = append(append(append([]byte(nil), old[:a]...), lib.RandomBytes(int64(k), r.Uint64())...), old[a:]...)
			forced = []int{a, a + k}
			shape = []string{fmt.Sprintf("insert%d@%d", k, a)}
		} else {
			if a+k > m {
				k = m - a
			}
			nw = append(append([]byte(nil), old[:a]...), old[a+k:]...)
			forced = []int{a}
			shape = []string{fmt.Sprintf("delete%d@%d", k, a)}
		}
		lenRel = "shifted"
	} else {
		switch r.Intn(6) {
		case 0:
			nw = nw[:r.Range(0, len(nw))]
			lenRel = "new-shorter"
		case 1:
			nw = append(nw, lib.RandomBytes(int64(r.PickInt([]int{1, 8193, 140000})), r.Uint64())...)
			lenRel = "new-longer"
		case 2:
			old = old[:r.Range(0, len(old))]
			lenRel = "old-shorter"
		case 3:
			if r.Bool() {
				old = nil
				lenRel = "old-empty"
			} else {
				nw = nil
				lenRel = "new-empty"
			}
		}
	}
	if r.Chance(0.12) {
		// a file that GROWS, and what it gains equals - offset for offset within the 128 KiB window - what the old
		// file held one window earlier: new = old + copy of old's last window (old an exact multiple of the window or
		// not), or a non-zero constant fill that simply gets longer
		const W = 128 * 1024
		k := r.Range(1, 3)
		extra := r.PickInt([]int{0, 0, 1, 5000, W / 2})
		if r.Bool() {
			old = lib.RandomBytes(int64(k*W+extra), r.Uint64())
			tail := old[len(old)-W:]
			if extra > 0 {
				tail = old[(k-1)*W+extra : k*W+extra]
			}
			nw = append(append([]byte(nil), old...), tail[:r.PickInt([]int{W, W / 2, 9000, W})]...)
			shape = []string{fmt.Sprintf("grow-by-copy-of-previous-window(k=%d,extra=%d)", k, extra)}
		} else {
			fill := byte(0xab)
			old = bytes.Repeat([]byte{fill}, k*W+extra)
			nw = bytes.Repeat([]byte{fill}, k*W+extra+r.PickInt([]int{1, 9000, W, W + 77, 3 * W}))
			shape = []string{fmt.Sprintf("constant-fill-grows(k=%d,extra=%d)", k, extra)}
		}
		forced, lenRel, small = nil, "grows-repeating-the-previous-window", false
	}
	return
}

// refOverlayApply applies decoded overlay ops to a copy of old (reference applier, DESIGN §4.4).
func refOverlayApply(ovl []byte, old []byte) ([]byte, int, error) {
	if len(ovl) < 4 || int32(binary.LittleEndian.Uint32(ovl)) != lib.MagicOvl {
		return nil, 0, fmt.Errorf("bad overlay magic")
	}
	off := 4
	next := func() ([]byte, error) {
		l, n := binary.Uvarint(ovl[off:])
		if n <= 0 {
			return nil, fmt.Errorf("bad uvarint at %d", off)
		}
		if off+n+int(l) > len(ovl) {
			return nil, fmt.Errorf("message at %d overruns the overlay", off)
		}
		b := ovl[off+n : off+n+int(l)]
		off += n + int(l)
		return b, nil
	}
	if _, err := next(); err != nil { // OverlayHeader
		return nil, 0, err
	}
	buf := append([]byte(nil), old...)
	pos := 0
	nops := 0
	for {
		raw, err := next()
		if err != nil {
			return nil, nops, err
		}
		op := &overlay.OverlayOp{}
		if err := proto.Unmarshal(raw, op); err != nil {
			return nil, nops, err
		}
		nops++
		switch op.Type {
		case overlay.OverlayOp_HEY_YOU_DID_IT:
			if pos > len(buf) {
				buf = append(buf, make([]byte, pos-len(buf))...)
			}
			return buf[:pos], nops, nil
		case overlay.OverlayOp_SKIP:
			if op.Len < 0 {
				return nil, nops, fmt.Errorf("negative skip")
			}
			pos += int(op.Len)
		case overlay.OverlayOp_FRESH:
			if pos+len(op.Data) > len(buf) {
				buf = append(buf, make([]byte, pos+len(op.Data)-len(buf))...)
			}
			copy(buf[pos:], op.Data)
			pos += len(op.Data)
		default:
			return nil, nops, fmt.Errorf("unknown overlay op %d", op.Type)
		}
	}
}

func c14Run(c lib.Case, env *lib.Env) lib.Result {
	var s c14Spec
	lib.ReadSpec(c, &s)
	if s.Bowl {
		return c14BowlRun(c, s, env)
	}
	res := lib.Result{NonTrivial: true}
	r := lib.NewRng(s.Seed)
	old, nw, shape, forced, lenRel, small := c14Contents(r)
	// --- produce the overlay with an arbitrary write partition, flushes and sessions
	ovlPath := filepath.Join(env.Scratch, "overlay.bin")
	junk := r.Chance(0.5)
	if junk { // stale bytes longer than the final overlay
		os.WriteFile(ovlPath, lib.RandomBytes(int64(len(nw)+70000), r.Uint64()), 0o644)
	}
	f, err := os.OpenFile(ovlPath, os.O_CREATE|os.O_RDWR, 0o644)
	if err != nil {
		res.Inconclusive(err.Error())
		return res
	}
	defer f.Close()
	oldReader := bytes.NewReader(old)
	ow, err := overlay.NewOverlayWriter(oldReader, 0, f, 0)
	if err != nil {
		res.Violate("newoverlaywriter-error", err.Error())
		return res
	}
	ws := r.PickInt(c14WriteSizes)
	if !small && ws == 1 {
		ws = 7
	}
	flushP := []float64{0, 0.2, 1}[r.Intn(3)]
	desc := fmt.Sprintf("seed=%d |old|=%d |new|=%d %s writeSize=%d flushP=%.1f junk=%v shape=%v", s.Seed, len(old), len(nw), lenRel, ws, flushP, junk, headStr(shape, 8))
	written, sessions, flushes := 0, 1, 0
	for written < len(nw) || (written == 0 && len(nw) == 0) {
		n := ws
		if n < 0 {
			n = len(nw)
		}
		if ws > 1 && r.Chance(0.2) {
			n = r.Range(1, ws)
		}
		if written+n > len(nw) {
			n = len(nw) - written
		}
		atForced := false
		for _, fo := range forced {
			if fo > written && fo <= written+n {
				n = fo - written
				atForced = true
				break
			}
		}
		if _, err := ow.Write(nw[written : written+n]); err != nil {
			res.Violate("write-error", desc, err.Error())
			return res
		}
		written += n
		if atForced || r.Chance(flushP) {
			if err := ow.Flush(); err != nil {
				res.Violate("flush-error", desc, err.Error())
				return res
			}
			flushes++
			if ow.ReadOffset() != int64(written) {
				res.Violate("readoffset-after-flush", desc, fmt.Sprintf("after flush at %d new bytes ReadOffset() = %d", written, ow.ReadOffset()))
				return res
			}
			if r.Chance(0.5) {
				// new session from the reported offsets, exactly what overlayEntryWriter.Resume does
				ro, oo := ow.ReadOffset(), ow.OverlayOffset()
				if _, err := oldReader.Seek(ro, io.SeekStart); err != nil {
					// reading past a shorter old file: seek beyond end is fine for bytes.Reader
				}
				if _, err := f.Seek(oo, io.SeekStart); err != nil {
					res.Inconclusive(err.Error())
					return res
				}
				ow, err = overlay.NewOverlayWriter(oldReader, ro, f, oo)
				if err != nil {
					res.Violate("newoverlaywriter-error", desc, err.Error())
					return res
				}
				sessions++
			}
		}
		if len(nw) == 0 {
			break
		}
	}
	if err := ow.Finalize(); err != nil {
		res.Violate("finalize-error", desc, err.Error())
		return res
	}
	ovl, _ := os.ReadFile(ovlPath)
	// --- apply with the real applier on an *os.File, truncate at the final position
	target := filepath.Join(env.Scratch, "target.bin")
	os.WriteFile(target, old, 0o644)
	tf, err := os.OpenFile(target, os.O_WRONLY, 0o644)
	if err != nil {
		res.Inconclusive(err.Error())
		return res
	}
	src := seeksource.FromBytes(ovl)
	if _, err := src.Resume(nil); err != nil {
		res.Inconclusive(err.Error())
		return res
	}
	// the overlay bowl applies all overlays of a commit through ONE patch context: every other case reuses the
	// context of the cases that ran before it in this process
	pctx := &overlay.OverlayPatchContext{}
	if c.ID%2 == 0 {
		pctx = c14SharedCtx
		res.Add("applied_through_reused_context", 1)
	}
	if err := pctx.Patch(src, tf); err != nil {
		tf.Close()
		res.Violate("patch-error", desc, err.Error())
		return res
	}
	pos, _ := tf.Seek(0, io.SeekCurrent)
	tf.Truncate(pos)
	tf.Close()
	got, _ := os.ReadFile(target)
	if !bytes.Equal(got, nw) {
		res.Violate("overlay-result-mismatch", desc, fmt.Sprintf("real applier: %d bytes, first diff at %d, want %d bytes; sessions=%d flushes=%d", len(got), firstDiffAt(got, nw), len(nw), sessions, flushes))
	}
	refOut, nops, rerr := refOverlayApply(ovl, old)
	if rerr != nil {
		res.Violate("overlay-stream-grammar", desc, rerr.Error())
	} else if !bytes.Equal(refOut, nw) {
		res.Violate("overlay-reference-mismatch", desc, fmt.Sprintf("reference applier: %d bytes, first diff at %d, want %d", len(refOut), firstDiffAt(refOut, nw), len(nw)))
	}
	res.Add("overlays_applied", 1)
	res.Add("overlay_ops_decoded", int64(nops))
	res.Add("sessions", int64(sessions))
	res.Add("flushes_checked", int64(flushes))
	res.Add("bytes_compared", int64(len(nw)))
	wsc := fmt.Sprint(ws)
	res.Feat = []string{fmt.Sprintf("%s|ws=%s|flush=%.1f|multi=%v|junk=%v|small=%v", lenRel, wsc, flushP, sessions > 1, junk, small)}
	if c.ID%60 == 0 {
		res.Sample = map[string]interface{}{"seed": s.Seed, "oldLen": len(old), "newLen": len(nw), "lengthRelation": lenRel, "writeSize": ws, "flushProbability": flushP,
			"sessions": sessions, "flushes": flushes, "overlayBytes": len(ovl), "overlayOps": nops, "runs": headStr(shape, 10)}
	}
	return res
}

// c14BowlRun: the same guarantee through its real user, the overlay bowl. The new content of one file that keeps its
// path is written through the bowl's entry writer in several sessions: Save (writer + bowl checkpoint, gob round trip),
// optionally some more writes that a crash would leave behind, then a BRAND-NEW bowl + entry writer resumed from the
// checkpoints; or the writer is abandoned without a checkpoint and the file restarted from scratch (Resume(nil)) in the
// same bowl. After Finalize/Close/Commit the file must equal the new content.
func c14BowlRun(c lib.Case, s c14Spec, env *lib.Env) lib.Result {
	res := lib.Result{NonTrivial: true}
	r := lib.NewRng(s.Seed)
	old, nw, shape, forced, lenRel, small := c14Contents(r)
	variant := []string{"sessions", "sessions", "abandon-restart", "single"}[r.Intn(4)]
	if variant == "abandon-restart" && r.Bool() {
		// what a stale read position would line up with: new = old minus a leading chunk
		m := r.PickInt([]int{300000, 500000})
		old = lib.RandomBytes(int64(m), r.Uint64())
		k := r.PickInt([]int{32 * lib.KB, 64 * lib.KB, 128 * lib.KB, 256 * lib.KB})
		nw = append(append([]byte(nil), old[k:]...), lib.RandomBytes(int64(r.PickInt([]int{0, 1, 9000})), r.Uint64())...)
		shape, forced, lenRel, small = []string{fmt.Sprintf("drop-leading%d", k)}, nil, "shifted", false
	}
	if variant == "sessions" && r.Chance(0.3) {
		// a constant region near the start of the old file, and a later region that BECOMES that constant in the new
		// file: what a reader positioned by the (small) overlay offset instead of the read offset lines up with; also
		// the reverse (leading fresh data so that the overlay offset is large)
		h := r.PickInt([]int{64 * lib.KB, 200000})
		A := lib.RandomBytes(int64(r.PickInt([]int{70000, 200000})), r.Uint64())
		B := lib.RandomBytes(int64(r.PickInt([]int{9000, 70000, 140000})), r.Uint64())
		fill := byte(r.Intn(2) * 0x20)
		Z := bytes.Repeat([]byte{fill}, h)
		old = append(append(append([]byte(nil), Z...), A...), B...)
		nw = append(append(append([]byte(nil), Z...), A...), bytes.Repeat([]byte{fill}, len(B))...)
		forced = []int{h + len(A)}
		if r.Bool() {
			F := lib.RandomBytes(int64(len(A)), r.Uint64()) // A is rewritten: the overlay grows as fast as the file
			nw = append(append(append([]byte(nil), Z...), F...), bytes.Repeat([]byte{fill}, len(B))...)
		}
		shape, lenRel, small = []string{fmt.Sprintf("const%d+A%d+B%d->const", h, len(A), len(B))}, "later-region-becomes-the-leading-constant", false
	}
	dir, stage := filepath.Join(env.Scratch, "dir"), filepath.Join(env.Scratch, "stage")
	os.MkdirAll(dir, 0o755)
	other := lib.RandomBytes(1000, r.Uint64())
	os.WriteFile(filepath.Join(dir, "a-other.bin"), other, 0o644)
	os.WriteFile(filepath.Join(dir, "f.bin"), old, 0o644)
	tc := &tlc.Container{Files: []*tlc.File{{Path: "a-other.bin", Size: 1000, Mode: 0o644}, {Path: "f.bin", Size: int64(len(old)), Mode: 0o644, Offset: 1000}}, Size: 1000 + int64(len(old))}
	sc := &tlc.Container{Files: []*tlc.File{{Path: "a-other.bin", Size: 1000, Mode: 0o644}, {Path: "f.bin", Size: int64(len(nw)), Mode: 0o644, Offset: 1000}}, Size: 1000 + int64(len(nw))}
	desc := fmt.Sprintf("seed=%d variant=%s |old|=%d |new|=%d rel=%s shape=%v", s.Seed, variant, len(old), len(nw), lenRel, headStr(shape, 6))
	newBowl := func() (bowl.Bowl, error) {
		return bowl.NewOverlayBowl(bowl.OverlayBowlParams{SourceContainer: sc, TargetContainer: tc, OutputFolder: dir, StageFolder: stage})
	}
	b, err := newBowl()
	if err == nil {
		err = b.Resume(nil)
	}
	if err != nil {
		res.Violate("bowl:open-error", desc, err.Error())
		return res
	}
	// the other file is kept as it is
	if err := b.Transpose(bowl.Transposition{TargetIndex: 0, SourceIndex: 0}); err != nil {
		res.Violate("bowl:transpose-error", desc, err.Error())
		return res
	}
	w, err := b.GetWriter(1)
	if err == nil {
		_, err = w.Resume(nil)
	}
	if err != nil {
		res.Violate("bowl:getwriter-error", desc, err.Error())
		return res
	}
	wsize := r.PickInt(c14WriteSizes)
	if wsize == 1 && !small {
		wsize = 7
	}
	if wsize <= 7 && len(nw) > 200000 {
		wsize = 4096
	}
	saveP := r.PickInt([]int{0, 1, 1, 3}) // sessions per ~10 writes
	if variant != "sessions" {
		saveP = 0
	}
	sessions, off := 1, 0
	isForced := map[int]bool{}
	for _, fo := range forced {
		isForced[fo] = true
	}
	fail := func(key string, xs ...string) lib.Result {
		res.Violate(key, append([]string{desc}, xs...)...)
		return res
	}
	if variant == "abandon-restart" && len(nw) > 0 {
		// first attempt: some of the content goes in, then the writer is dropped without a checkpoint
		k := r.PickInt([]int{1, 8193, 128 * lib.KB, 128*lib.KB + 1, 140000, 270000})
		if k > len(nw) {
			k = len(nw)
		}
		if _, err := w.Write(nw[:k]); err != nil {
			return fail("bowl:write-error", err.Error())
		}
		w.Close()
		w, err = b.GetWriter(1)
		if err == nil {
			_, err = w.Resume(nil)
		}
		if err != nil {
			return fail("bowl:getwriter-error", "second GetWriter of the same file: "+err.Error())
		}
		res.Add("files_restarted_from_scratch_in_the_same_bowl", 1)
	}
	nwrites := 0
	for off < len(nw) {
		n := wsize
		if n == -1 {
			n = len(nw)
		} else if r.Chance(0.3) {
			n = r.Range(1, n)
		}
		if off+n > len(nw) {
			n = len(nw) - off
		}
		for _, fo := range forced {
			if off < fo && off+n > fo {
				n = fo - off
			}
		}
		if _, err := w.Write(nw[off : off+n]); err != nil {
			return fail("bowl:write-error", fmt.Sprintf("at %d: %v", off, err))
		}
		off += n
		nwrites++
		if w.Tell() != int64(off) {
			return fail("bowl:tell-wrong", fmt.Sprintf("Tell()=%d after %d bytes", w.Tell(), off))
		}
		if (saveP > 0 && r.Intn(10) < saveP) || (variant == "sessions" && isForced[off] && (r.Bool() || lenRel == "later-region-becomes-the-leading-constant")) {
			wcp, err := w.Save()
			if err != nil {
				return fail("bowl:save-error", err.Error())
			}
			bcp, err := b.Save()
			if err != nil {
				return fail("bowl:save-error", err.Error())
			}
			var wb, bb bytes.Buffer
			if err := gob.NewEncoder(&wb).Encode(wcp); err != nil {
				return fail("bowl:checkpoint-not-gob-encodable", err.Error())
			}
			if err := gob.NewEncoder(&bb).Encode(bcp); err != nil {
				return fail("bowl:checkpoint-not-gob-encodable", err.Error())
			}
			if wcp.Offset != int64(off) {
				return fail("bowl:checkpoint-offset-wrong", fmt.Sprintf("checkpoint says %d, %d bytes were written", wcp.Offset, off))
			}
			// what a crash leaves behind: writes made after the checkpoint, wholly or partly on disk
			if r.Bool() && off < len(nw) {
				extra := r.PickInt([]int{1, 5000, 140000})
				if off+extra > len(nw) {
					extra = len(nw) - off
				}
				w.Write(nw[off : off+extra])
				if r.Bool() {
					w.Save() // flushed to disk, but this checkpoint is lost
				}
				res.Add("sessions_with_writes_after_the_checkpoint", 1)
			}
			w.Close()
			wcp2, bcp2 := &bowl.WriterCheckpoint{}, &bowl.BowlCheckpoint{}
			if err := gob.NewDecoder(&wb).Decode(wcp2); err != nil {
				return fail("bowl:checkpoint-not-gob-decodable", err.Error())
			}
			if err := gob.NewDecoder(&bb).Decode(bcp2); err != nil {
				return fail("bowl:checkpoint-not-gob-decodable", err.Error())
			}
			b, err = newBowl()
			if err == nil {
				err = b.Resume(bcp2)
			}
			if err != nil {
				return fail("bowl:resume-error", err.Error())
			}
			w, err = b.GetWriter(1)
			if err != nil {
				return fail("bowl:getwriter-error", err.Error())
			}
			roff, err := w.Resume(wcp2)
			if err != nil {
				return fail("bowl:resume-error", err.Error())
			}
			if roff != int64(off) {
				return fail("bowl:resume-offset-wrong", fmt.Sprintf("resumed at %d, checkpoint was taken at %d", roff, off))
			}
			sessions++
		}
	}
	if err := w.Finalize(); err != nil {
		return fail("bowl:finalize-error", err.Error())
	}
	if err := w.Close(); err != nil {
		return fail("bowl:close-error", err.Error())
	}
	if err := b.Commit(); err != nil {
		return fail("bowl:commit-error", err.Error())
	}
	got, err := os.ReadFile(filepath.Join(dir, "f.bin"))
	if err != nil {
		return fail("bowl:result-unreadable", err.Error())
	}
	if !bytes.Equal(got, nw) {
		return fail("bowl:result-differs", fmt.Sprintf("file has %d bytes (first diff at %d), want %d; %d sessions, write size %d", len(got), firstDiffAt(got, nw), len(nw), sessions, wsize))
	}
	if o, _ := os.ReadFile(filepath.Join(dir, "a-other.bin")); !bytes.Equal(o, other) {
		return fail("bowl:other-file-changed")
	}
	res.Add("bowl_files_produced_and_compared", 1)
	res.Add("bowl_sessions", int64(sessions))
	res.Add("bowl_writes", int64(nwrites))
	res.Feat = []string{fmt.Sprintf("bowl|%s|%s|w%d|multi=%v|small=%v", variant, lenRel, wsize, sessions > 1, small)}
	if c.ID%97 == 0 {
		res.Sample = map[string]interface{}{"via": "overlay bowl", "variant": variant, "oldLen": len(old), "newLen": len(nw), "sessions": sessions, "writeSize": wsize, "shape": headStr(shape, 6)}
	}
	return res
}

func headStr(xs []string, n int) []string {
	if len(xs) > n {
		return xs[:n]
	}
	return xs
}

func init() {
	lib.Register(&lib.Property{
		ID:          "C14",
		Level:       "exploration",
		Rule:        "old/new assembled from equal runs of {1,100,8191,8192,8193,8194,20000,131071,131072,131073,300000} bytes and differing runs (fully different, or equal except every k-th byte, k in {2,100,8000,9000}), new shorter/longer/empty, old shorter/empty; new content fed to the real overlay writer in writes of {1,7,4096,8191,8192,8193,131071,131072,131073,300000,all} bytes (randomly shortened), Flush after each write with probability {0,0.2,1} (ReadOffset must equal bytes written so far), a new writer session from (ReadOffset, OverlayOffset) after a flush with probability 0.5, overlay file pre-filled with junk longer than the final overlay in half the cases; result of the real OverlayPatchContext.Patch on an *os.File + truncate, and of a reference applier over the independently decoded ops, must both equal new. A third of the cases go through the overlay bowl instead (the real user): the file keeps its path, its new content is written through the bowl's entry writer in sessions - Save of writer + bowl, gob round trip, optional writes after the checkpoint (as a crash leaves them), brand-new bowl and writer resumed from the checkpoints - or the writer is abandoned and the file restarted with Resume(nil) in the same bowl (incl. new = old minus a leading chunk); Tell/checkpoint offsets are checked, and after Finalize/Close/Commit the file must equal new. distinct = distinct (length relation, write size, flush probability, multi-session, junk, small)",
		Assumptions: []string{"the old-content reader returns full reads (bytes.Reader), as *os.File does; short-reading old readers are outside the statement"},
		Cases:       c14Cases,
		Run:         c14Run,
		Batch:       20,
	})
}
