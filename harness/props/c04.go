package props

import (
	"bytes"
	"context"
	"fmt"
	"io"
	"os"
	"path/filepath"
	"sync"

	"github.com/itchio/lake"
	"github.com/itchio/lake/pools"
	"github.com/itchio/lake/pools/fspool"
	"github.com/itchio/lake/tlc"
	"github.com/itchio/wharf/pwr"
	"github.com/itchio/wharf/wsync"
	"verif/lib"
)

// C04 — a build validates against its own signature (DESIGN §5 C04).

type c04Spec struct {
	BuildSeed uint64   `json:"buildSeed"`
	Shape     string   `json:"shape"` // sweep | tiny | generic
	Comp      lib.Comp `json:"comp"`
	Yield     bool     `json:"yield"`
}

var c04Sizes = []int64{0, 1, 2, 16*lib.KB - 1, 16 * lib.KB, 16*lib.KB + 1, 32*lib.KB - 1, 32 * lib.KB, 32*lib.KB + 1,
	lib.BS - 1, lib.BS, lib.BS + 1, 2*lib.BS - 1, 2 * lib.BS, 2*lib.BS + 1, 3*lib.BS - 1, 3 * lib.BS, 3*lib.BS + 1,
	4*lib.BS - 1, 4 * lib.BS, 4*lib.BS + 1, 5*lib.BS - 1, 5 * lib.BS, 5*lib.BS + 1, 65*lib.BS - 1, 65 * lib.BS, 65*lib.BS + 1}

func c04Build(seed uint64, shape string) (*lib.Build, *lib.Build, []string) {
	r := lib.NewRng(lib.Mix(seed, 404))
	switch shape {
	case "sweep":
		nb, ob := lib.NewBuild(), lib.NewBuild()
		n := r.Range(3, 7)
		var feats []string
		for i := 0; i < n; i++ {
			sz := r.PickI64(c04Sizes)
			if sz > 60*lib.BS && i > 0 {
				sz = r.PickI64(c04Sizes[:24])
			}
			cl := []string{lib.CRandom, lib.CRandom, lib.CZero, lib.CPeriod}[r.Intn(4)]
			d := lib.MakeContent(cl, sz, r.Uint64(), r)
			path := fmt.Sprintf("%ss%02d.bin", []string{"", "x/", "x/y/"}[r.Intn(3)], i)
			nb.PutFile(path, d)
			if r.Bool() {
				ob.PutFile(path, d)
			}
			feats = append(feats, fmt.Sprintf("size=%d/%s", sz, cl))
		}
		// two consecutive blocks with the same weak hash and different content; names with consecutive dots
		tw := lib.RandomBytes(lib.BS, r.Uint64())
		tw2 := append([]byte(nil), tw...)
		for o := 100; o+3 < len(tw2); o++ {
			if tw2[o] < 255 && tw2[o+1] >= 2 && tw2[o+2] < 255 {
				tw2[o], tw2[o+1], tw2[o+2] = tw2[o]+1, tw2[o+1]-2, tw2[o+2]+1
				break
			}
		}
		nb.PutFile("v1..2/weak-twins.bin", append(append(append([]byte(nil), tw...), tw2...), tw[:r.Range(1, 5000)]...))
		nb.PutFile("docs/notes..txt", lib.RandomBytes(int64(r.Range(1, 3000)), r.Uint64()))
		nb.PutDir("emptydir")
		nb.PutSymlink("lnk", lib.OddDest(r, "x"))
		nb.PutSymlink("x/lnk2", lib.OddDest(r, "../emptydir"))
		if r.Chance(0.5) {
			// two files whose paths differ only by letter case (legal on a case-sensitive file system)
			nb.PutFile("docs/README", lib.RandomBytes(r.PickI64(c04Sizes[:18]), r.Uint64()))
			nb.PutFile("docs/readme", lib.RandomBytes(r.PickI64(c04Sizes[:18]), r.Uint64()))
			feats = append(feats, "case-twins")
		}
		return ob, nb, feats
	case "tiny":
		p := lib.GenPair(seed, lib.GenOpts{ManyTiny: true, MaxFile: 2000})
		return p.Old, p.New, []string{"many-tiny"}
	default:
		p := lib.GenPair(seed, lib.GenOpts{MaxFile: 6 * lib.BS})
		return p.Old, p.New, p.FeatList()
	}
}

func c04Cases(tier string, seed uint64, flavor string) []lib.Case {
	n := 150
	if tier == "thorough" {
		n = 20000
	}
	if flavor == "race" {
		n = 200
		if tier != "thorough" {
			n = 30
		}
	}
	comps := lib.AllComps()
	var cases []lib.Case
	for i := 0; i < n; i++ {
		shape := "sweep"
		if i%10 == 9 {
			shape = "tiny"
		} else if i%3 == 2 {
			shape = "generic"
		}
		s := c04Spec{BuildSeed: lib.Mix(seed, 4, uint64(i)), Shape: shape, Comp: comps[i%len(comps)], Yield: i%2 == 0}
		cases = append(cases, lib.Case{Seed: s.BuildSeed, Kind: shape, Spec: lib.MustSpec(s)})
	}
	// builds that are ONE regular file rather than a directory
	for i := 0; i < n/6; i++ {
		s := c04Spec{BuildSeed: lib.Mix(seed, 41, uint64(i)), Shape: "single-file", Comp: comps[(i*7)%len(comps)]}
		cases = append(cases, lib.Case{Seed: s.BuildSeed, Kind: "single-file", Spec: lib.MustSpec(s)})
	}
	return cases
}

func cmpHashes(got []wsync.BlockHash, ref []lib.RefBlockHash, who string) []string {
	var out []string
	if len(got) != len(ref) {
		out = append(out, fmt.Sprintf("%s: %d hashes, reference has %d", who, len(got), len(ref)))
	}
	for i := 0; i < len(got) && i < len(ref); i++ {
		g, w := got[i], ref[i]
		if g.FileIndex != w.FileIndex || g.BlockIndex != w.BlockIndex || g.WeakHash != w.Weak || !bytes.Equal(g.StrongHash, w.Strong) || g.ShortSize != w.ShortSize {
			out = append(out, fmt.Sprintf("%s: hash %d = {file %d blk %d weak %08x short %d}, reference {file %d blk %d weak %08x short %d} strongEqual=%v",
				who, i, g.FileIndex, g.BlockIndex, g.WeakHash, g.ShortSize, w.FileIndex, w.BlockIndex, w.Weak, w.ShortSize, bytes.Equal(g.StrongHash, w.Strong)))
			if len(out) > 4 {
				break
			}
		}
	}
	return out
}

// c04SingleFile: the "build" is one regular file (tlc.WalkAny on a file; pools.New serves it from the path itself). The
// SAME pool object serves stand-alone signing first and diff-time signing afterwards; both signatures are compared with
// the reference, and the file (and a copy of it) is validated against the signature with the FILE as the target.
func c04SingleFile(c lib.Case, s c04Spec, env *lib.Env) lib.Result {
	res := lib.Result{NonTrivial: true}
	r := lib.NewRng(lib.Mix(s.BuildSeed, 414))
	sz := r.PickI64(c04Sizes[:24])
	data := lib.MakeContent([]string{lib.CRandom, lib.CRandom, lib.CZero, lib.CPeriod}[r.Intn(4)], sz, r.Uint64(), r)
	path := filepath.Join(env.Scratch, "game.bin")
	if err := os.WriteFile(path, data, 0o644); err != nil {
		res.Inconclusive(err.Error())
		return res
	}
	desc := fmt.Sprintf("single-file build of %d bytes, comp=%s seed=%d", sz, s.Comp, s.BuildSeed)
	cont, err := tlc.WalkAny(path, tlc.WalkOpts{})
	if err != nil {
		res.Inconclusive("WalkAny(file): " + err.Error())
		return res
	}
	if len(cont.Files) != 1 || cont.Files[0].Size != sz {
		res.Violate("container-mismatch", desc, fmt.Sprintf("container of a single file lists %d files", len(cont.Files)))
		return res
	}
	pool, err := pools.New(cont, path)
	if err != nil {
		res.Inconclusive("pools.New(file): " + err.Error())
		return res
	}
	defer pool.Close()
	ref := lib.RefSignature([][]byte{data}, lib.BS)
	ctx := context.Background()
	alone, err := pwr.ComputeSignature(ctx, cont, pool, lib.Quiet())
	if err != nil {
		res.Violate("computesignature-error", desc, err.Error())
	} else if pr := cmpHashes(alone, ref, "stand-alone signature of a single-file build"); len(pr) > 0 {
		res.Violate("standalone-signature-wrong", append([]string{desc}, pr...)...)
	}
	var sigInfo *pwr.SignatureInfo
	for round := 0; round < 2; round++ { // the pool has been read before, once and then twice
		var sb bytes.Buffer
		d := &pwr.DiffContext{Compression: s.Comp.Settings(), Consumer: lib.Quiet(), SourceContainer: cont, Pool: pool, TargetContainer: &tlc.Container{}, TargetSignature: nil}
		if err := d.WritePatch(ctx, io.Discard, &sb); err != nil {
			res.Violate("diff-error", desc, err.Error())
			return res
		}
		si, err := lib.ReadSig(sb.Bytes())
		if err != nil {
			res.Violate("readsignature-error", desc, err.Error())
			return res
		}
		if pr := cmpHashes(si.Hashes, ref, fmt.Sprintf("diff-time signature of a single-file build (pool used %d times before)", round+1)); len(pr) > 0 {
			res.Violate("difftime-signature-wrong", append([]string{desc}, pr...)...)
		}
		sigInfo = si
	}
	res.Add("hashes_checked", int64(3*len(ref)))
	// validation with the file itself (and a byte-identical copy) as the target
	cp := filepath.Join(env.Scratch, "copy", "game.bin")
	os.MkdirAll(filepath.Dir(cp), 0o755)
	os.WriteFile(cp, data, 0o644)
	for _, target := range []string{path, cp} {
		if err := pwr.AssertValid(target, sigInfo); err != nil {
			res.Violate("assertvalid-error-on-pristine", desc, "target is the file itself: "+err.Error())
		}
		wp := filepath.Join(env.Scratch, "wounds-single.pww")
		v := &pwr.ValidatorContext{WoundsPath: wp, Consumer: lib.Quiet()}
		if err := v.Validate(ctx, target, sigInfo); err != nil {
			res.Violate("validate-error-on-pristine", desc, "target is the file itself: "+err.Error())
		}
		if _, err := os.Stat(wp); err == nil {
			_, ws, _ := lib.DecodeWounds(mustRead(wp))
			res.Violate("wounds-on-pristine", desc, fmt.Sprintf("target is the file itself: wounds file with %d wounds: %v", len(ws), ws))
			os.Remove(wp)
		}
		res.Add("validations", 2)
	}
	res.Add("single_file_builds", 1)
	res.SetAdd("compression_settings", s.Comp.String())
	res.Feat = []string{fmt.Sprintf("single-file|size=%d|%s", sz, s.Comp.Algo)}
	return res
}

func c04Run(c lib.Case, env *lib.Env) lib.Result {
	var s c04Spec
	lib.ReadSpec(c, &s)
	if s.Shape == "single-file" {
		return c04SingleFile(c, s, env)
	}
	res := lib.Result{NonTrivial: true}
	ob, nb, feats := c04Build(s.BuildSeed, s.Shape)
	oldDir, newDir := filepath.Join(env.Scratch, "old"), filepath.Join(env.Scratch, "new")
	if err := ob.Materialize(oldDir); err != nil {
		res.Inconclusive(err.Error())
		return res
	}
	if err := nb.Materialize(newDir); err != nil {
		res.Inconclusive(err.Error())
		return res
	}
	var sp *lib.ShortReadPool
	dr, err := lib.DiffDirs(oldDir, newDir, s.Comp, func(p lake.Pool) lake.Pool {
		sp = &lib.ShortReadPool{Inner: p, Rng: lib.NewRng(lib.Mix(s.BuildSeed, 44)), Yield: s.Yield, EOFWithData: c.ID%3 == 1}
		return sp
	}, nil, nil)
	if err != nil {
		res.Violate("diff-error", err.Error())
		return res
	}
	res.Add("source_reads_sliced", sp.Reads)
	// reference signature from the file bytes, in container order
	var contents [][]byte
	for _, f := range dr.NewC.Files {
		e := nb.E[f.Path]
		if e == nil {
			res.Violate("container-mismatch", "container lists "+f.Path+" which the build does not have")
			return res
		}
		contents = append(contents, e.Data)
	}
	ref := lib.RefSignature(contents, lib.BS)
	if pr := containerProblems(dr.NewC, nb, "walked"); len(pr) > 0 {
		res.Violate("container-mismatch", pr...)
	}
	// producer 1: the stream written next to the patch, read back by wharf and by the independent decoder
	sigInfo, err := lib.ReadSig(dr.Sig)
	if err != nil {
		res.Violate("readsignature-error", s.Comp.String(), err.Error())
		return res
	}
	if pr := containerProblems(sigInfo.Container, nb, "signature"); len(pr) > 0 {
		res.Violate("signature-container", pr...)
	}
	if pr := cmpHashes(sigInfo.Hashes, ref, "diff-time signature ("+s.Comp.String()+")"); len(pr) > 0 {
		res.Violate("difftime-signature-wrong", pr...)
	}
	if ss, err := lib.DecodeSig(dr.Sig); err != nil {
		res.Violate("signature-stream-grammar", err.Error())
	} else {
		if len(ss.Hashes) != len(ref) {
			res.Violate("signature-stream-count", fmt.Sprintf("stream carries %d hashes, reference %d", len(ss.Hashes), len(ref)))
		} else {
			for i, h := range ss.Hashes {
				if h.WeakHash != ref[i].Weak || !bytes.Equal(h.StrongHash, ref[i].Strong) {
					res.Violate("signature-stream-hash", fmt.Sprintf("hash %d differs from reference", i))
					break
				}
			}
		}
		if ss.Header.Compression.Algorithm != s.Comp.Settings().Algorithm {
			res.Violate("signature-header", "compression in header differs from the one asked")
		}
	}
	res.Add("hashes_checked", int64(len(ref)))
	// producer 2: stand-alone signing
	alone, err := pwr.ComputeSignature(context.Background(), dr.NewC, fspool.New(dr.NewC, newDir), lib.Quiet())
	if err != nil {
		res.Violate("computesignature-error", err.Error())
	} else if pr := cmpHashes(alone, ref, "stand-alone signature"); len(pr) > 0 {
		res.Violate("standalone-signature-wrong", pr...)
	}
	// validation of the pristine build
	wp := filepath.Join(env.Scratch, "wounds.pww")
	vctx := &pwr.ValidatorContext{WoundsPath: wp, Consumer: lib.Quiet()}
	if err := vctx.Validate(context.Background(), newDir, sigInfo); err != nil {
		res.Violate("validate-error-on-pristine", err.Error())
	}
	if _, err := os.Stat(wp); err == nil {
		_, ws, _ := lib.DecodeWounds(mustRead(wp))
		res.Violate("wounds-on-pristine", fmt.Sprintf("wounds file created with %d wounds: %v", len(ws), ws))
	}
	if vctx.WoundsConsumer != nil && vctx.WoundsConsumer.HasWounds() {
		res.Violate("wounds-on-pristine", "HasWounds() == true")
	}
	if err := pwr.AssertValid(newDir, sigInfo); err != nil {
		res.Violate("assertvalid-error-on-pristine", err.Error())
	}
	res.Add("validations", 2)
	// several validations of the pristine build running at the same time in this process (separate contexts) must
	// not disturb each other
	if c.ID%3 == 0 {
		var wg sync.WaitGroup
		errs := make([]error, 4)
		for k := range errs {
			wg.Add(1)
			go func(k int) {
				defer wg.Done()
				if k%2 == 0 {
					errs[k] = pwr.AssertValid(newDir, sigInfo)
					return
				}
				wpk := filepath.Join(env.Scratch, fmt.Sprintf("wounds-conc%d.pww", k))
				v := &pwr.ValidatorContext{WoundsPath: wpk, Consumer: lib.Quiet()}
				errs[k] = v.Validate(context.Background(), newDir, sigInfo)
				if _, serr := os.Stat(wpk); serr == nil && errs[k] == nil {
					_, ws, _ := lib.DecodeWounds(mustRead(wpk))
					errs[k] = fmt.Errorf("wounds file with %d wounds: %v", len(ws), ws)
				}
			}(k)
		}
		wg.Wait()
		for k, e := range errs {
			if e != nil {
				res.Violate("concurrent-validations:wounds-or-error-on-pristine", fmt.Sprintf("validation %d of 4 running at the same time: %v", k, e))
				break
			}
		}
		res.Add("concurrent_validation_groups", 1)
	}
	// one validator context used again: first on a damaged copy, then on the pristine build
	dam := filepath.Join(env.Scratch, "dam")
	if err := nb.Materialize(dam); err == nil {
		dr := lib.NewRng(lib.Mix(s.BuildSeed, 45))
		var ds []lib.Damage
		for _, e := range nb.Sorted() {
			switch e.Kind {
			case lib.KDir:
				ds = append(ds, lib.Damage{Op: "tofile", Path: e.Path, N: 10}, lib.Damage{Op: "tosymlink", Path: e.Path, S: "elsewhere"}, lib.Damage{Op: "rmtree", Path: e.Path})
			case lib.KFile:
				ds = append(ds, lib.Damage{Op: "delete", Path: e.Path}, lib.Damage{Op: "tononemptydir", Path: e.Path}, lib.Damage{Op: "tosymlink", Path: e.Path, S: "elsewhere"})
				if len(e.Data) > 0 {
					ds = append(ds, lib.Damage{Op: "flip", Path: e.Path, N: int64(dr.Intn(len(e.Data)))})
				}
			case lib.KSymlink:
				ds = append(ds, lib.Damage{Op: "rmsymlink", Path: e.Path}, lib.Damage{Op: "retarget", Path: e.Path, S: "other"}, lib.Damage{Op: "todir", Path: e.Path})
			}
		}
		applied := ""
		for k := 0; k < 2 && len(ds) > 0; k++ {
			d := ds[dr.Intn(len(ds))]
			if lib.ApplyDamage(dam, d) == nil {
				applied += d.String() + ";"
			}
		}
		wp2 := filepath.Join(env.Scratch, "wounds2.pww")
		for _, mode := range []string{"wounds-file", "fail-fast"} {
			v := &pwr.ValidatorContext{Consumer: lib.Quiet()}
			if mode == "wounds-file" {
				v.WoundsPath = wp2
			} else {
				v.FailFast = true
			}
			err1 := v.Validate(context.Background(), dam, sigInfo)
			sawDamage := err1 != nil || (v.WoundsConsumer != nil && v.WoundsConsumer.HasWounds())
			os.Remove(wp2)
			if err := v.Validate(context.Background(), newDir, sigInfo); err != nil {
				res.Violate("reused-context:validate-error-on-pristine", mode, "after validating a copy damaged by "+applied, err.Error())
			}
			if _, err := os.Stat(wp2); err == nil {
				_, ws, _ := lib.DecodeWounds(mustRead(wp2))
				res.Violate("reused-context:wounds-on-pristine", mode, "after validating a copy damaged by "+applied, fmt.Sprintf("%d wounds: %v", len(ws), ws))
			}
			if v.WoundsConsumer != nil && v.WoundsConsumer.HasWounds() {
				res.Violate("reused-context:wounds-on-pristine", mode, "HasWounds() == true after validating a copy damaged by "+applied)
			}
			os.Remove(wp2)
			res.Add("validations_with_a_reused_context", 2)
			if sawDamage {
				res.Add("reused_contexts_that_had_seen_damage", 1)
			}
		}
	}
	res.SetAdd("compression_settings", s.Comp.String())
	for _, f := range feats {
		res.Feat = append(res.Feat, f+"|"+s.Comp.Algo)
	}
	if c.ID < 3 {
		res.Sample = map[string]interface{}{"buildSeed": s.BuildSeed, "shape": s.Shape, "comp": s.Comp.String(), "files": len(contents), "hashes": len(ref), "features": feats}
	}
	return res
}

func mustRead(p string) []byte {
	b, _ := os.ReadFile(p)
	return b
}

func init() {
	lib.Register(&lib.Property{
		ID:          "C04",
		Level:       "exploration",
		Rule:        "builds with file sizes swept over {0,1,16K±1,32K±1,n·64K±1 (n=1..5,65)}, content classes {random, zero, periodic}, many-tiny-file builds, symlinks, empty dirs; both producers (diff-time signing through a source pool that slices every read randomly and yields, and stand-alone signing) compared hash-by-hash against a reference signature written from the specification; every compression setting of the signature stream; Validate (wounds-file mode) and AssertValid on the pristine build must report nothing; the same holds for a validator context that has just validated a damaged copy (two random structural/content damages) and is used again on the pristine build. Every third case also runs four validations of the pristine build at the same time (separate contexts). Builds that are a single regular file (tlc.WalkAny on a file): one pool object serves stand-alone signing and then diff-time signing twice, all three compared with the reference; the file itself and a copy are validated as the target. Symlink destinations are spelled in non-normal forms half of the time (./x, x/../y, a//b, trailing /., absolute, upward, spaces). distinct = distinct (size/content class or relation label, algorithm)",
		Assumptions: []string{"crypto/md5 and the reference weak-hash formula are correct"},
		Flavors:     func(tier string) []string { return []string{"plain", "race"} },
		Cases:       c04Cases,
		Run:         c04Run,
		Batch:       20,
	})
}
