package props

import (
	"bytes"
	"context"
	"fmt"
	"io"
	"os"
	"path/filepath"
	"regexp"
	"strings"
	"time"

	"github.com/golang/protobuf/proto"
	"github.com/itchio/lake/pools/fspool"
	"github.com/itchio/lake/tlc"
	"github.com/itchio/savior/seeksource"
	"github.com/itchio/wharf/bsdiff"
	"github.com/itchio/wharf/pwr"
	"github.com/itchio/wharf/pwr/bowl"
	"github.com/itchio/wharf/pwr/overlay"
	"github.com/itchio/wharf/pwr/patcher"
	"github.com/itchio/wharf/pwr/rediff"
	"github.com/itchio/wharf/wsync"
	"verif/lib"
)

// C10 — malformed streams yield an error, never a crash (DESIGN §5 C10).

type c10Spec struct {
	Seed    uint64 `json:"seed"`
	Stream  string `json:"stream"` // patch | optpatch | sig | overlay
	Mode    string `json:"mode"`   // trunc | field
	Comp    string `json:"comp"`   // none | gzip | brotli
	From    int    `json:"from"`
	To      int    `json:"to"`
	Only    int    `json:"only"`    // replay: run a single mutant index (-1 = all in [From,To))
	Variant int    `json:"variant"` // size class of the multi-op old file (0: unaligned, 1: 3 blocks exactly, 2: 2.5 blocks)
}

func c10Pair(seed uint64, variant int) *lib.Pair {
	r := lib.NewRng(lib.Mix(seed, 1010))
	p := &lib.Pair{Old: lib.NewBuild(), New: lib.NewBuild(), Feat: map[string]bool{}}
	asize := 3*lib.BS + int64(r.Range(1, 500))
	switch variant % 3 {
	case 1:
		asize = 3 * lib.BS // an exact multiple of the block size and of lrufile's 32 KiB chunk
	case 2:
		asize = 2*lib.BS + 32*lib.KB
	}
	a := lib.RandomBytes(asize, r.Uint64())
	na := append([]byte(nil), a...)
	lib.FillRandom(na[lib.BS+10:lib.BS+60], r.Uint64())
	p.Old.PutFile("a.bin", a)
	p.New.PutFile("a.bin", na) // multi-op file (range, data, range) / bsdiff in the optimized patch
	b := lib.RandomBytes(int64(r.Range(100, 3000)), r.Uint64())
	p.Old.PutFile("b.bin", b)
	p.New.PutFile("b-moved.bin", b) // whole-file op
	p.Old.PutFile("old-only.bin", lib.RandomBytes(50, r.Uint64()))
	p.New.PutFile("empty.bin", nil)
	p.New.PutFile("fresh.bin", lib.RandomBytes(int64(r.Range(10, 400)), r.Uint64()))
	p.New.PutDir("d")
	p.New.PutSymlink("l", "a.bin")
	// a fresh file whose single DATA message is framed in EXACTLY 65536 bytes (a growth step of the reader's buffer)
	for n := 65536 - 12; n <= 65536; n++ {
		if proto.Size(&pwr.SyncOp{Type: pwr.SyncOp_DATA, Data: make([]byte, n)}) == 65536 {
			p.New.PutFile("exact-frame.bin", lib.RandomBytes(int64(n), r.Uint64()))
			break
		}
	}
	return p
}

var c10Vals = func(L int64) []int64 {
	return []int64{-1, 0, 1, L - 1, L, L + 1, 1<<31 - 1, 1 << 31, 1 << 32, 1 << 62}
}

type mutant struct {
	desc string
	body []proto.Message // nil for raw-byte mutants
	raw  []byte
}

// patchMutants enumerates field and structural mutations of a decoded patch (containers untouched).
func patchMutants(ps *lib.PatchStream) []mutant {
	base := ps.Flat()
	nOld, nNew := int64(len(ps.Old.Files)), int64(len(ps.New.Files))
	var out []mutant
	clone := func() []proto.Message {
		c := make([]proto.Message, len(base))
		for i, m := range base {
			if i < 2 {
				c[i] = m // containers are never mutated
			} else {
				c[i] = proto.Clone(m)
			}
		}
		return c
	}
	add := func(desc string, f func(ms []proto.Message) []proto.Message) {
		out = append(out, mutant{desc: desc, body: f(clone())})
	}
	var oldBlocks int64 = 4
	var oldSize int64
	for _, f := range ps.Old.Files {
		if f.Size > oldSize {
			oldSize = f.Size
		}
	}
	for i := 2; i < len(base); i++ {
		i := i
		switch m := base[i].(type) {
		case *pwr.SyncHeader:
			for _, v := range c10Vals(nNew) {
				v := v
				add(fmt.Sprintf("msg%d SyncHeader.FileIndex=%d", i, v), func(ms []proto.Message) []proto.Message { ms[i].(*pwr.SyncHeader).FileIndex = v; return ms })
			}
			for _, t := range []int32{0, 1, 7, -1} {
				t := t
				if t == int32(m.Type) {
					continue
				}
				add(fmt.Sprintf("msg%d SyncHeader.Type=%d", i, t), func(ms []proto.Message) []proto.Message {
					ms[i].(*pwr.SyncHeader).Type = pwr.SyncHeader_Type(t)
					return ms
				})
			}
		case *pwr.SyncOp:
			for _, t := range []int32{0, 1, 2049, 77, -5} {
				t := t
				if t == int32(m.Type) {
					continue
				}
				add(fmt.Sprintf("msg%d SyncOp.Type=%d", i, t), func(ms []proto.Message) []proto.Message { ms[i].(*pwr.SyncOp).Type = pwr.SyncOp_Type(t); return ms })
			}
			if m.Type == pwr.SyncOp_BLOCK_RANGE {
				for _, v := range c10Vals(nOld) {
					v := v
					add(fmt.Sprintf("msg%d SyncOp.FileIndex=%d", i, v), func(ms []proto.Message) []proto.Message { ms[i].(*pwr.SyncOp).FileIndex = v; return ms })
				}
				for _, v := range c10Vals(oldBlocks) {
					v := v
					add(fmt.Sprintf("msg%d SyncOp.BlockIndex=%d", i, v), func(ms []proto.Message) []proto.Message { ms[i].(*pwr.SyncOp).BlockIndex = v; return ms })
					add(fmt.Sprintf("msg%d SyncOp.BlockSpan=%d", i, v), func(ms []proto.Message) []proto.Message { ms[i].(*pwr.SyncOp).BlockSpan = v; return ms })
				}
			}
			if m.Type == pwr.SyncOp_BLOCK_RANGE {
				// two fields damaged together (sums that wrap or land back in range)
				const maxI, minI = int64(1<<63 - 1), int64(-1 << 63)
				for _, pr := range [][2]int64{{-1 << 62, 1<<62 + 2}, {minI, maxI}, {minI, -1}, {-1, 2}, {-5, 10}, {oldBlocks - 1, maxI}, {1 << 62, 1 << 62}, {maxI, 1}, {maxI, maxI}, {1, maxI}, {minI, minI}, {-oldBlocks, 2 * oldBlocks}} {
					pr := pr
					add(fmt.Sprintf("msg%d SyncOp.BlockIndex=%d+BlockSpan=%d", i, pr[0], pr[1]), func(ms []proto.Message) []proto.Message {
						o := ms[i].(*pwr.SyncOp)
						o.BlockIndex, o.BlockSpan = pr[0], pr[1]
						return ms
					})
				}
				for _, pr := range [][2]int64{{-1, -1}, {nOld, 0}, {nOld - 1, 1 << 40}, {minI, minI}, {1 << 62, -1 << 62}} {
					pr := pr
					add(fmt.Sprintf("msg%d SyncOp.FileIndex=%d+BlockIndex=%d", i, pr[0], pr[1]), func(ms []proto.Message) []proto.Message {
						o := ms[i].(*pwr.SyncOp)
						o.FileIndex, o.BlockIndex = pr[0], pr[1]
						return ms
					})
				}
			}
			if m.Type == pwr.SyncOp_DATA {
				// a data op that turns into a block range: with explicit ranges and with all-zero fields
				for _, pr := range [][3]int64{{0, 0, 1}, {0, 0, 0}, {0, 1, 1}, {nOld, 0, 1}, {0, -1 << 62, 1<<62 + 2}} {
					pr := pr
					add(fmt.Sprintf("msg%d data op becomes BLOCK_RANGE file=%d index=%d span=%d", i, pr[0], pr[1], pr[2]), func(ms []proto.Message) []proto.Message {
						ms[i] = &pwr.SyncOp{Type: pwr.SyncOp_BLOCK_RANGE, FileIndex: pr[0], BlockIndex: pr[1], BlockSpan: pr[2]}
						return ms
					})
				}
				add(fmt.Sprintf("msg%d SyncOp.Data=empty", i), func(ms []proto.Message) []proto.Message { ms[i].(*pwr.SyncOp).Data = nil; return ms })
				add(fmt.Sprintf("msg%d SyncOp.Data+1", i), func(ms []proto.Message) []proto.Message {
					o := ms[i].(*pwr.SyncOp)
					o.Data = append(o.Data, 0)
					return ms
				})
			}
			if m.Type != pwr.SyncOp_HEY_YOU_DID_IT {
				// extra ops right after this one (after a full-file op they are "trailing ops" the patcher skips)
				for _, v := range []int64{-1, nOld, 1 << 62} {
					v := v
					for _, t := range []pwr.SyncOp_Type{pwr.SyncOp_BLOCK_RANGE, pwr.SyncOp_DATA} {
						t := t
						add(fmt.Sprintf("msg%d followed by extra op type=%d fileIndex=%d", i, t, v), func(ms []proto.Message) []proto.Message {
							extra := &pwr.SyncOp{Type: t, FileIndex: v, BlockIndex: 0, BlockSpan: 1}
							return append(ms[:i+1:i+1], append([]proto.Message{extra}, ms[i+1:]...)...)
						})
					}
				}
			}
			if m.Type == pwr.SyncOp_HEY_YOU_DID_IT {
				add(fmt.Sprintf("msg%d end-marker dropped", i), func(ms []proto.Message) []proto.Message { return append(ms[:i:i], ms[i+1:]...) })
				add(fmt.Sprintf("msg%d end-marker duplicated", i), func(ms []proto.Message) []proto.Message {
					return append(ms[:i+1:i+1], append([]proto.Message{proto.Clone(ms[i])}, ms[i+1:]...)...)
				})
			}
		case *pwr.BsdiffHeader:
			for _, v := range c10Vals(nOld) {
				v := v
				add(fmt.Sprintf("msg%d BsdiffHeader.TargetIndex=%d", i, v), func(ms []proto.Message) []proto.Message { ms[i].(*pwr.BsdiffHeader).TargetIndex = v; return ms })
			}
		case *bsdiff.Control:
			for _, v := range append(c10Vals(oldSize), -oldSize-1, -1<<62) {
				v := v
				add(fmt.Sprintf("msg%d Control.Seek=%d", i, v), func(ms []proto.Message) []proto.Message { ms[i].(*bsdiff.Control).Seek = v; return ms })
			}
			if tgt, ok := bsTargetSize(ps, i); ok {
				// seeks that put the NEXT control's old offset exactly at {0, size-1, size, size+1, next 32K boundary +-1}
				cur := bsOffsetAfterAdd(base, i)
				for _, want := range []int64{0, tgt - 1, tgt, tgt + 1, (tgt/32768+1)*32768 - 1, (tgt/32768 + 1) * 32768} {
					v := want - cur
					add(fmt.Sprintf("msg%d Control.Seek lands old offset on %d (size %d)", i, want, tgt), func(ms []proto.Message) []proto.Message { ms[i].(*bsdiff.Control).Seek = v; return ms })
				}
			}
			for _, pr := range [][2]int64{{-1 << 62, oldSize}, {1<<63 - 1, 1}, {-1 << 63, 0}, {-oldSize, oldSize + 1}} {
				pr := pr
				add(fmt.Sprintf("msg%d Control.Seek=%d+Add of %d bytes", i, pr[0], pr[1]), func(ms []proto.Message) []proto.Message {
					c := ms[i].(*bsdiff.Control)
					c.Seek, c.Add = pr[0], make([]byte, pr[1])
					return ms
				})
			}
			add(fmt.Sprintf("msg%d Control.Add past old end", i), func(ms []proto.Message) []proto.Message {
				ms[i].(*bsdiff.Control).Add = make([]byte, oldSize+10)
				return ms
			})
			add(fmt.Sprintf("msg%d Control.Copy=empty", i), func(ms []proto.Message) []proto.Message { ms[i].(*bsdiff.Control).Copy = nil; return ms })
			add(fmt.Sprintf("msg%d Control.Eof flipped", i), func(ms []proto.Message) []proto.Message { c := ms[i].(*bsdiff.Control); c.Eof = !c.Eof; return ms })
			if m.Eof {
				add(fmt.Sprintf("msg%d Eof control dropped", i), func(ms []proto.Message) []proto.Message { return append(ms[:i:i], ms[i+1:]...) })
			}
		}
		// generic structural mutations
		add(fmt.Sprintf("msg%d dropped", i), func(ms []proto.Message) []proto.Message { return append(ms[:i:i], ms[i+1:]...) })
		add(fmt.Sprintf("msg%d end-marker inserted before", i), func(ms []proto.Message) []proto.Message {
			return append(ms[:i:i], append([]proto.Message{&pwr.SyncOp{Type: pwr.SyncOp_HEY_YOU_DID_IT}}, ms[i:]...)...)
		})
	}
	// sync headers reordered (swap the first two series' indices)
	add("sync headers 0 and 1 swapped", func(ms []proto.Message) []proto.Message {
		var hs []*pwr.SyncHeader
		for _, m := range ms {
			if h, ok := m.(*pwr.SyncHeader); ok {
				hs = append(hs, h)
			}
		}
		if len(hs) >= 2 {
			hs[0].FileIndex, hs[1].FileIndex = hs[1].FileIndex, hs[0].FileIndex
		}
		return ms
	})
	add("body ends after containers", func(ms []proto.Message) []proto.Message { return ms[:2] })
	add("extra series appended", func(ms []proto.Message) []proto.Message {
		return append(ms, &pwr.SyncHeader{FileIndex: nNew}, &pwr.SyncOp{Type: pwr.SyncOp_DATA, Data: []byte("x")}, &pwr.SyncOp{Type: pwr.SyncOp_HEY_YOU_DID_IT})
	})
	return out
}

// bsTargetSize returns the size of the old file the bsdiff series containing flat message i applies to.
func bsTargetSize(ps *lib.PatchStream, i int) (int64, bool) {
	flat := ps.Flat()
	for k := i; k >= 0; k-- {
		if h, ok := flat[k].(*pwr.BsdiffHeader); ok {
			if h.TargetIndex >= 0 && h.TargetIndex < int64(len(ps.Old.Files)) {
				return ps.Old.Files[h.TargetIndex].Size, true
			}
			return 0, false
		}
		if _, ok := flat[k].(*pwr.SyncHeader); ok {
			return 0, false
		}
	}
	return 0, false
}

// bsOffsetAfterAdd simulates the old offset right after the add of control i (before its seek is applied).
func bsOffsetAfterAdd(flat []proto.Message, i int) int64 {
	var off int64
	start := i
	for start > 0 {
		if _, ok := flat[start-1].(*bsdiff.Control); !ok {
			break
		}
		start--
	}
	for k := start; k <= i; k++ {
		c := flat[k].(*bsdiff.Control)
		off += int64(len(c.Add))
		if k < i {
			off += c.Seek
		}
	}
	return off
}

type c10Seeds struct {
	pair           *lib.Pair
	oldDir, newDir string
	patch, opt     []byte
	first          []byte // patch of the same new build against an EMPTY old build (first install)
	emptyDir       string
	sig            []byte
	overlays       [][2][]byte // overlay bytes, old content
}

func c10MakeSeeds(seed uint64, variant int, scratch string) (*c10Seeds, error) {
	s := &c10Seeds{pair: c10Pair(seed, variant), oldDir: filepath.Join(scratch, "old"), newDir: filepath.Join(scratch, "new")}
	s.pair.Old.Materialize(s.oldDir)
	s.pair.New.Materialize(s.newDir)
	dr, err := lib.DiffDirs(s.oldDir, s.newDir, lib.Comp{Algo: "none"}, nil, nil, nil)
	if err != nil {
		return nil, err
	}
	s.patch, s.sig = dr.Patch, dr.Sig
	var ob bytes.Buffer
	if err := lib.Optimize(s.patch, s.oldDir, s.newDir, lib.OptParams{Partitions: 0, ForceMapAll: true, Comp: &lib.Comp{Algo: "none"}}, &ob); err != nil {
		return nil, err
	}
	s.opt = ob.Bytes()
	s.emptyDir = filepath.Join(scratch, "empty-old")
	os.MkdirAll(s.emptyDir, 0o755)
	fr, err := lib.DiffDirs(s.emptyDir, s.newDir, lib.Comp{Algo: "none"}, nil, nil, nil)
	if err != nil {
		return nil, err
	}
	s.first = fr.Patch
	r := lib.NewRng(lib.Mix(seed, 1011))
	for i := 0; i < 3; i++ {
		old := lib.RandomBytes(int64(r.Range(0, 40000)), r.Uint64())
		nw := append([]byte(nil), old...)
		if len(nw) > 100 {
			lib.FillRandom(nw[50:90], r.Uint64())
		}
		nw = append(nw, lib.RandomBytes(int64(r.Range(0, 300)), r.Uint64())...)
		var buf bytes.Buffer
		ow, err := overlay.NewOverlayWriter(bytes.NewReader(old), 0, &buf, 0)
		if err != nil {
			return nil, err
		}
		ow.Write(nw)
		ow.Finalize()
		s.overlays = append(s.overlays, [2][]byte{buf.Bytes(), old})
	}
	return s, nil
}

func c10Cases(tier string, seed uint64, flavor string) []lib.Case {
	var cases []lib.Case
	nseeds := 3
	if tier == "thorough" {
		nseeds = 30
	}
	for si := 0; si < nseeds; si++ {
		sd := lib.Mix(seed, 10, uint64(si))
		for _, st := range []string{"patch", "optpatch", "firstpatch", "sig", "overlay"} {
			for _, comp := range []string{"none", "gzip", "brotli"} {
				if st == "overlay" && comp != "none" {
					continue
				}
				if st == "firstpatch" && tier != "thorough" && si > 0 {
					continue
				}
				// the supervisor does not know mutant counts: chunks are open-ended and clamp themselves
				chunks := 8
				for ch := 0; ch < chunks; ch++ {
					for _, mode := range []string{"trunc", "field"} {
						cases = append(cases, lib.Case{Seed: sd, Kind: st + "/" + mode + "/" + comp, Spec: lib.MustSpec(c10Spec{Seed: sd, Stream: st, Mode: mode, Comp: comp, From: ch, To: chunks, Only: -1, Variant: si})})
					}
				}
			}
		}
	}
	return cases
}

var argsRe = regexp.MustCompile(`\([^()]*\)$`)

// panicSite: entry point × first wharf/lake frame of the panic stack (line numbers stripped).
func panicSite(stack string) string {
	for _, l := range strings.Split(stack, "\n") {
		l = strings.TrimSpace(l)
		if (strings.HasPrefix(l, "github.com/itchio/wharf/") || strings.HasPrefix(l, "github.com/itchio/lake/")) && !strings.Contains(l, "verif") {
			l = argsRe.ReplaceAllString(l, "")
			return strings.TrimPrefix(strings.TrimPrefix(l, "github.com/itchio/wharf/"), "github.com/itchio/")
		}
	}
	return "unknown"
}

type c10Runner struct {
	res   *lib.Result
	seeds *c10Seeds
	env   *lib.Env
	n     int
	ood   int
}

// call runs one entry point under recover + quiescence detection.
func (cr *c10Runner) call(entry, desc string, f func() error) {
	var err error
	var panicked bool
	var stack string
	v := lib.RunWithQuiescence(func() { err, panicked, stack = lib.Guard(f) }, 12*time.Second)
	cr.res.Add("entry_calls", 1)
	cr.res.Add("calls:"+entry, 1)
	if !v.Returned {
		if v.Deadlock {
			cr.res.Violate("deadlock:"+entry, desc, v.Report)
		} else {
			// still running: look again 10s later before calling it a livelock
			time.Sleep(10 * time.Second)
			g := lib.WharfGoroutines()
			if strings.TrimSpace(g) != "" {
				cr.res.Violate("does-not-terminate:"+entry, desc, g)
			} else {
				cr.res.Inconclusive("slow case: " + desc)
			}
		}
		return
	}
	if panicked {
		msg := err.Error()
		if strings.Contains(msg, "out of memory") || strings.Contains(msg, "makeslice: len out of range") || strings.Contains(msg, "makeslice: cap out of range") {
			cr.ood++
			cr.res.Add("out_of_domain_discarded", 1)
			return
		}
		msg = regexp.MustCompile(`\[[^\]]*\]|-?\d+`).ReplaceAllString(msg, "N")
		cr.res.Violate(fmt.Sprintf("panic:%s @ %s (%s)", entry, panicSite(stack), strings.TrimPrefix(msg, "panic: ")), desc, stack)
		return
	}
	if err != nil {
		cr.res.Add("returned_error", 1)
	} else {
		cr.res.Add("completed_without_error", 1)
	}
}

func (cr *c10Runner) feedPatch(stream []byte, desc string) {
	fmt.Fprintf(os.Stderr, "mutant %s\n", desc)
	s := cr.seeds
	cr.n++
	whitelist := 0 // 1: empty whitelist (every series is skipped), 2: only new file 1
	apply := func(dry bool) error {
		p, err := patcher.New(seeksource.FromBytes(stream), lib.Quiet())
		if err != nil {
			return err
		}
		switch whitelist {
		case 1:
			p.SetSourceIndexWhitelist(map[int64]bool{})
		case 2:
			p.SetSourceIndexWhitelist(map[int64]bool{1: true})
		}
		tp := fspool.New(p.GetTargetContainer(), s.oldDir)
		var b bowl.Bowl
		if dry {
			b, err = bowl.NewDryBowl(&bowl.DryBowlParams{SourceContainer: p.GetSourceContainer(), TargetContainer: p.GetTargetContainer()})
		} else {
			out := filepath.Join(cr.env.Scratch, fmt.Sprintf("o%d", cr.n))
			defer os.RemoveAll(out)
			b, err = bowl.NewFreshBowl(bowl.FreshBowlParams{SourceContainer: p.GetSourceContainer(), TargetContainer: p.GetTargetContainer(), TargetPool: tp, OutputFolder: out})
		}
		if err != nil {
			return err
		}
		if err := p.Resume(nil, tp, b); err != nil {
			return err
		}
		return b.Commit()
	}
	cr.call("patcher+freshbowl", desc, func() error { return apply(false) })
	cr.call("patcher+drybowl", desc, func() error { return apply(true) })
	// partial application: the series of files outside the whitelist go through the skip path
	whitelist = 1 + cr.n%2
	cr.call("patcher+whitelist+drybowl", desc, func() error { return apply(true) })
	whitelist = 0
	cr.call("rediff", desc, func() error {
		rc, err := rediff.NewContext(rediff.Params{PatchReader: seeksource.FromBytes(stream), Consumer: lib.Quiet(), Partitions: 2})
		if err != nil {
			return err
		}
		tp := fspool.New(rc.GetTargetContainer(), s.oldDir)
		sp := fspool.New(rc.GetSourceContainer(), s.newDir)
		defer tp.Close()
		defer sp.Close()
		return rc.Optimize(rediff.OptimizeParams{TargetPool: tp, SourcePool: sp, PatchWriter: io.Discard})
	})
}

func (cr *c10Runner) feedSig(stream []byte, desc string) {
	fmt.Fprintf(os.Stderr, "mutant %s\n", desc)
	s := cr.seeds
	cr.call("readsignature+hashinfo+validatingpool", desc, func() error {
		si, err := lib.ReadSig(stream)
		if err != nil {
			return err
		}
		_, herr := pwr.ComputeHashInfo(si)
		// a validating-pool write that uses the grouping
		vp := &pwr.ValidatingPool{Pool: &recWPool{data: map[int64][]byte{}, closed: map[int64]bool{}, sizes: make([]int64, len(si.Container.Files))}, Container: si.Container, Signature: si}
		for i, f := range si.Container.Files {
			w, err := vp.GetWriter(int64(i))
			if err != nil {
				herr = err
				break
			}
			if e := s.pair.New.E[f.Path]; e != nil {
				w.Write(e.Data)
			}
			w.Close()
		}
		// the validator gets the signature whatever the grouping said (its file worker builds the grouping itself)
		if verr := pwr.AssertValid(s.newDir, si); verr != nil {
			return verr
		}
		return herr
	})
}

// feedSigInfo hands ComputeHashInfo (and a validating pool built on the result) a signature value directly.
func (cr *c10Runner) feedSigInfo(cont *tlc.Container, hs []*pwr.BlockHash, desc string) {
	fmt.Fprintf(os.Stderr, "mutant %s\n", desc)
	s := cr.seeds
	cr.call("hashinfo+validatingpool", desc, func() error {
		// a caller-built slice of exactly that many hashes (no spare capacity a stray re-slice could hide in)
		si := &pwr.SignatureInfo{Container: cont, Hashes: make([]wsync.BlockHash, 0, len(hs))}
		for i, h := range hs {
			si.Hashes = append(si.Hashes, wsync.BlockHash{FileIndex: 0, BlockIndex: int64(i), WeakHash: h.WeakHash, StrongHash: h.StrongHash})
		}
		if _, err := pwr.ComputeHashInfo(si); err != nil {
			return err
		}
		vp := &pwr.ValidatingPool{Pool: &recWPool{data: map[int64][]byte{}, closed: map[int64]bool{}, sizes: make([]int64, len(si.Container.Files))}, Container: si.Container, Signature: si}
		for i, f := range si.Container.Files {
			w, err := vp.GetWriter(int64(i))
			if err != nil {
				return err
			}
			if e := s.pair.New.E[f.Path]; e != nil {
				w.Write(e.Data)
			}
			w.Close()
		}
		return nil
	})
}

func (cr *c10Runner) feedOverlay(stream, old []byte, desc string) {
	fmt.Fprintf(os.Stderr, "mutant %s\n", desc)
	cr.n++
	cr.call("overlay-patch", desc, func() error {
		path := filepath.Join(cr.env.Scratch, fmt.Sprintf("t%d", cr.n))
		defer os.Remove(path)
		os.WriteFile(path, old, 0o644)
		f, err := os.OpenFile(path, os.O_WRONLY, 0)
		if err != nil {
			return err
		}
		defer f.Close()
		src := seeksource.FromBytes(stream)
		if _, err := src.Resume(nil); err != nil {
			return err
		}
		return (&overlay.OverlayPatchContext{}).Patch(src, f)
	})
}

func c10Run(c lib.Case, env *lib.Env) lib.Result {
	var s c10Spec
	lib.ReadSpec(c, &s)
	res := lib.Result{NonTrivial: true}
	seeds, err := c10MakeSeeds(s.Seed, s.Variant, env.Scratch)
	if err != nil {
		res.Inconclusive("seed streams: " + err.Error())
		return res
	}
	cr := &c10Runner{res: &res, seeds: seeds, env: env}
	comp := lib.Comp{Algo: s.Comp, Quality: 1}
	inChunk := func(i int) bool { return i%s.To == s.From && (s.Only < 0 || s.Only == i) }
	recompress := func(valid []byte, magic int32, hdr proto.Message) ([]byte, []proto.Message) { return nil, nil }
	_ = recompress
	nmut := 0
	switch s.Stream {
	case "patch", "optpatch", "firstpatch":
		base := seeds.patch
		if s.Stream == "optpatch" {
			base = seeds.opt
		}
		if s.Stream == "firstpatch" {
			base = seeds.first
			seeds.oldDir = seeds.emptyDir // the old build has no file at all
		}
		ps, derr := lib.DecodePatch(base)
		if derr != nil {
			res.Inconclusive("seed patch does not decode: " + derr.Error())
			return res
		}
		hdr := &pwr.PatchHeader{Compression: comp.Settings()}
		valid, _ := lib.EncodeStream(lib.MagicPatch, hdr, ps.Flat(), comp)
		step := 97
		if len(valid) > 150000 {
			step = 97 * (len(valid)/150000 + 1) // long streams: about the same number of interior cuts
		}
		if s.Mode == "trunc" {
			// every byte for uncompressed streams <= 8 KiB; every 97th byte above; first/last 512 bytes of compressed ones
			for cut := 0; cut < len(valid); cut++ {
				if s.Comp == "none" {
					if len(valid) > 8192 && cut%step != 0 && cut > 600 && cut < len(valid)-600 {
						continue
					}
				} else if cut > 512 && cut < len(valid)-512 && cut%211 != 0 {
					continue
				}
				if inChunk(nmut) {
					cr.feedPatch(valid[:cut], fmt.Sprintf("#%d %s/%s truncated at byte %d of %d", nmut, s.Stream, s.Comp, cut, len(valid)))
				}
				nmut++
			}
		} else {
			// the stream header itself: no compression sub-message, unknown / negative algorithm, odd qualities
			for hi, h := range []*pwr.PatchHeader{{}, {Compression: &pwr.CompressionSettings{Algorithm: 77}}, {Compression: &pwr.CompressionSettings{Algorithm: -1}},
				{Compression: &pwr.CompressionSettings{Algorithm: pwr.CompressionAlgorithm_GZIP, Quality: 1 << 30}}, {Compression: &pwr.CompressionSettings{Algorithm: pwr.CompressionAlgorithm_BROTLI, Quality: -9}}} {
				if inChunk(nmut) && s.Comp == "none" {
					if enc, eerr := lib.EncodeStream(lib.MagicPatch, h, ps.Flat(), lib.Comp{Algo: "none"}); eerr == nil {
						cr.feedPatch(enc, fmt.Sprintf("#%d %s header variant %d: %v", nmut, s.Stream, hi, h))
					}
				}
				nmut++
			}
			for _, m := range patchMutants(ps) {
				if inChunk(nmut) {
					enc, eerr := lib.EncodeStream(lib.MagicPatch, hdr, m.body, comp)
					if eerr == nil {
						cr.feedPatch(enc, fmt.Sprintf("#%d %s/%s %s", nmut, s.Stream, s.Comp, m.desc))
					}
				}
				nmut++
			}
		}
	case "sig":
		ss, derr := lib.DecodeSig(seeds.sig)
		if derr != nil {
			res.Inconclusive("seed signature does not decode: " + derr.Error())
			return res
		}
		hdr := &pwr.SignatureHeader{Compression: comp.Settings()}
		body := func(hs []*pwr.BlockHash) []proto.Message {
			out := []proto.Message{ss.Container}
			for _, h := range hs {
				out = append(out, h)
			}
			return out
		}
		valid, _ := lib.EncodeStream(lib.MagicSig, hdr, body(ss.Hashes), comp)
		if s.Mode == "trunc" {
			for cut := 0; cut < len(valid); cut++ {
				if s.Comp != "none" && cut > 512 && cut < len(valid)-512 && cut%211 != 0 {
					continue
				}
				if inChunk(nmut) {
					cr.feedSig(valid[:cut], fmt.Sprintf("#%d sig/%s truncated at byte %d of %d", nmut, s.Comp, cut, len(valid)))
				}
				nmut++
			}
		} else {
			n := len(ss.Hashes)
			variants := map[string][]*pwr.BlockHash{
				"n-1 hashes": ss.Hashes[:n-1], "0 hashes": nil, "1 hash": ss.Hashes[:1],
				"n+1 hashes": append(append([]*pwr.BlockHash(nil), ss.Hashes...), ss.Hashes[0]),
				"2n hashes":  append(append([]*pwr.BlockHash(nil), ss.Hashes...), ss.Hashes...),
			}
			for k := 1; k < n; k++ {
				variants[fmt.Sprintf("first %d hashes", k)] = ss.Hashes[:k]
			}
			var names []string
			for k := range variants {
				names = append(names, k)
			}
			sortStrings(names)
			for _, name := range names {
				if inChunk(nmut) {
					enc, _ := lib.EncodeStream(lib.MagicSig, hdr, body(variants[name]), comp)
					cr.feedSig(enc, fmt.Sprintf("#%d sig/%s %s (container needs %d)", nmut, s.Comp, name, n))
				}
				nmut++
				// the hash grouping built straight from a signature value with that hash list (ReadSignature itself
				// stops reading after the hashes the container needs)
				if inChunk(nmut) && s.Comp == "none" {
					cr.feedSigInfo(ss.Container, variants[name], fmt.Sprintf("#%d siginfo %s (container needs %d)", nmut, name, n))
				}
				nmut++
			}
			for i := 0; i < n; i++ { // hash fields
				for _, v := range []string{"weak=0", "strong=empty", "strong=1byte"} {
					if inChunk(nmut) {
						hs := make([]*pwr.BlockHash, n)
						for j, h := range ss.Hashes {
							hs[j] = proto.Clone(h).(*pwr.BlockHash)
						}
						switch v {
						case "weak=0":
							hs[i].WeakHash = 0
						case "strong=empty":
							hs[i].StrongHash = nil
						default:
							hs[i].StrongHash = []byte{1}
						}
						enc, _ := lib.EncodeStream(lib.MagicSig, hdr, body(hs), comp)
						cr.feedSig(enc, fmt.Sprintf("#%d sig/%s hash %d %s", nmut, s.Comp, i, v))
					}
					nmut++
				}
			}
		}
	case "overlay":
		for oi, ov := range seeds.overlays {
			valid, old := ov[0], ov[1]
			if s.Mode == "trunc" {
				for cut := 0; cut < len(valid); cut++ {
					if len(valid) > 8192 && cut%97 != 0 && cut > 600 && cut < len(valid)-600 {
						continue
					}
					if inChunk(nmut) {
						cr.feedOverlay(valid[:cut], old, fmt.Sprintf("#%d overlay%d truncated at byte %d of %d", nmut, oi, cut, len(valid)))
					}
					nmut++
				}
				continue
			}
			ops, derr := decodeOverlayOps(valid)
			if derr != nil {
				res.Inconclusive("seed overlay does not decode: " + derr.Error())
				return res
			}
			emit := func(desc string, ms []proto.Message) {
				if inChunk(nmut) {
					enc, _ := lib.EncodeStream(lib.MagicOvl, &overlay.OverlayHeader{}, ms, lib.Comp{Algo: "none"})
					cr.feedOverlay(enc, old, fmt.Sprintf("#%d overlay%d %s", nmut, oi, desc))
				}
				nmut++
			}
			for i := range ops {
				for _, v := range append(c10Vals(int64(len(old))), -1<<62) {
					ms := cloneMsgs(ops)
					ms[i].(*overlay.OverlayOp).Len = v
					ms[i].(*overlay.OverlayOp).Type = overlay.OverlayOp_SKIP
					emit(fmt.Sprintf("op%d SKIP len=%d", i, v), ms)
				}
				for _, t := range []int32{0, 1, 2040, 9, -1} {
					ms := cloneMsgs(ops)
					ms[i].(*overlay.OverlayOp).Type = overlay.OverlayOp_Type(t)
					emit(fmt.Sprintf("op%d type=%d", i, t), ms)
				}
				ms := cloneMsgs(ops)
				ms[i].(*overlay.OverlayOp).Data = nil
				ms[i].(*overlay.OverlayOp).Type = overlay.OverlayOp_FRESH
				emit(fmt.Sprintf("op%d FRESH empty", i), ms)
				ms = cloneMsgs(ops)
				emit(fmt.Sprintf("op%d dropped", i), append(ms[:i:i], ms[i+1:]...))
				ms = cloneMsgs(ops)
				emit(fmt.Sprintf("op%d duplicated", i), append(ms[:i+1:i+1], append([]proto.Message{proto.Clone(ms[i])}, ms[i+1:]...)...))
			}
		}
	}
	res.Add("executions", res.Obs["entry_calls"])
	res.Add("mutants_in_space", int64(nmut))
	if cr.ood*100 > int(res.Obs["entry_calls"])+100 {
		res.Inconclusive(fmt.Sprintf("%d of %d calls were out-of-domain: the generator is wrong", cr.ood, res.Obs["entry_calls"]))
	}
	res.Feat = []string{fmt.Sprintf("%s|%s|%s|chunk%d|seed%d", s.Stream, s.Mode, s.Comp, s.From, s.Seed%1000)}
	if s.From == 0 {
		res.Sample = map[string]interface{}{"seedStream": s.Stream, "mode": s.Mode, "framing": s.Comp, "mutantsInSpace": nmut, "runInThisChunk": cr.n, "entryCalls": res.Obs["entry_calls"]}
	}
	return res
}

func sortStrings(xs []string) {
	for i := 1; i < len(xs); i++ {
		for j := i; j > 0 && xs[j] < xs[j-1]; j-- {
			xs[j], xs[j-1] = xs[j-1], xs[j]
		}
	}
}

func cloneMsgs(ms []proto.Message) []proto.Message {
	out := make([]proto.Message, len(ms))
	for i, m := range ms {
		out[i] = proto.Clone(m)
	}
	return out
}

func decodeOverlayOps(ovl []byte) ([]proto.Message, error) {
	// magic, header, ops
	if len(ovl) < 4 {
		return nil, fmt.Errorf("short")
	}
	var out []proto.Message
	off := 4
	first := true
	for off < len(ovl) {
		l, n := uvarint(ovl[off:])
		if n <= 0 || off+n+int(l) > len(ovl) {
			return nil, fmt.Errorf("bad framing at %d", off)
		}
		raw := ovl[off+n : off+n+int(l)]
		off += n + int(l)
		if first {
			first = false
			continue
		}
		op := &overlay.OverlayOp{}
		if err := proto.Unmarshal(raw, op); err != nil {
			return nil, err
		}
		out = append(out, op)
		if op.Type == overlay.OverlayOp_HEY_YOU_DID_IT {
			break
		}
	}
	return out, nil
}

func uvarint(b []byte) (uint64, int) {
	var x uint64
	var s uint
	for i, c := range b {
		if c < 0x80 {
			return x | uint64(c)<<s, i + 1
		}
		x |= uint64(c&0x7f) << s
		s += 7
		if i > 9 {
			return 0, -1
		}
	}
	return 0, 0
}

var _ = context.Background

func init() {
	lib.Register(&lib.Property{
		ID:          "C10",
		Level:       "fault_enumeration",
		Rule:        "seed streams: valid plain and optimized (ForceMapAll) patches of a small pair, the first-install patch of the same new build against an EMPTY old build (multi-op file, whole-file op, empty file, fresh file, dir, symlink), its signature, three overlays; each re-framed uncompressed, GZIP and BROTLI by the independent encoder (every message carries its true length; the two containers are never mutated). (a) truncation at EVERY byte of uncompressed streams <= 8 KiB (every 97th byte plus the first/last 600 above; first/last 512 + every 211th byte of compressed ones); (b) field mutation: every index/span/length/seek field of every message set to {-1,0,1,L-1,L,L+1,2^31-1,2^31,2^32,2^62} (and -L-1, -2^62 for seeks), op/series kinds set to every other legal and to unknown values, two fields damaged together (block index + span / file index + block index / seek + add with sums that wrap or land back in range; a data op turned into a block range), signature values with each hash-list variant handed to ComputeHashInfo directly, end markers dropped / duplicated / inserted early, sync headers swapped, add longer than the old file, copy empty, Eof flipped / dropped, series appended, signatures with n-1 / n+1 / 0 / 1 / k / 2n hashes and damaged hash fields, overlay SKIP negative/huge, FRESH empty, ops dropped / duplicated. Every mutant goes to patcher.New/Resume with fresh and dry bowl and with a source-index whitelist (empty / one file: the skip path), rediff.NewContext/Optimize, ReadSignature+ComputeHashInfo+validating pool+AssertValid, OverlayPatchContext.Patch; oracle: the call returns (recover in the caller, child-exit attribution for panics in other goroutines, quiescence detector for hangs). distinct = distinct (stream, mode, framing, chunk, seed)",
		Assumptions: []string{"output content is not judged", "a panic with 'out of memory' / 'makeslice: len out of range' would be classed out-of-domain (huge allocation); none is expected because all declared lengths are true"},
		Cases:       c10Cases,
		Run:         c10Run,
		Batch:       2,
		CaseBudget:  900 * 1e9,
		Exhaustive: func(tier string) (bool, string) {
			return false, "truncation points of uncompressed seed streams <= 8 KiB are enumerated completely; everything else is a fixed list"
		},
	})
}
