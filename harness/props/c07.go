package props

import (
	"bytes"
	"fmt"
	"path/filepath"
	"regexp"
	"time"

	"github.com/itchio/lake"
	"verif/lib"
)

// C07 — optimizing a patch never changes what it produces (DESIGN §5 C07).

type c07Spec struct {
	PairSeed uint64          `json:"pairSeed"`
	Shape    string          `json:"shape"` // tiny | generic | shares | larger
	InComp   lib.Comp        `json:"inComp"`
	Params   []lib.OptParams `json:"params"`
}

func c07Pair(seed uint64, shape string) *lib.Pair {
	r := lib.NewRng(lib.Mix(seed, 707))
	switch shape {
	case "tiny":
		// new files of 0..16 bytes next to old files of 0..40 bytes and of several blocks
		p := &lib.Pair{Old: lib.NewBuild(), New: lib.NewBuild(), Feat: map[string]bool{}}
		n := r.Range(2, 6)
		for i := 0; i < n; i++ {
			name := fmt.Sprintf("t%02d.bin", i)
			var od []byte
			switch r.Intn(5) {
			case 0:
				od = nil
			case 1:
				od = lib.RandomBytes(int64(r.Range(1, 2)), r.Uint64())
			case 2:
				od = lib.RandomBytes(int64(r.Range(3, 40)), r.Uint64())
			case 3:
				od = bytes.Repeat([]byte{byte('a' + r.Intn(3))}, r.Range(1, 40))
			default:
				od = lib.RandomBytes(int64(r.Range(1, 3))*lib.BS+int64(r.Intn(100)), r.Uint64())
			}
			var nd []byte
			switch r.Intn(4) {
			case 0:
				nd = lib.RandomBytes(int64(r.Range(0, 16)), r.Uint64())
			case 1:
				if len(od) > 0 {
					k := r.Range(0, min(16, len(od)))
					nd = append([]byte(nil), od[:k]...)
				}
			case 2:
				nd = bytes.Repeat([]byte{byte('a' + r.Intn(3))}, r.Range(0, 16))
			default:
				nd = append(append([]byte(nil), od...), byte(r.Intn(256)))
				if len(nd) > 3*lib.BS {
					nd = nd[:16]
				}
			}
			if r.Chance(0.85) {
				p.Old.PutFile(name, od)
			}
			p.New.PutFile(name, nd)
		}
		p.Feat["tiny-files"] = true
		return p
	case "shares":
		// a new file made of equal shares of two differently named old files; rename + edit
		p := &lib.Pair{Old: lib.NewBuild(), New: lib.NewBuild(), Feat: map[string]bool{}}
		a := lib.RandomBytes(int64(r.Range(2, 5))*lib.BS, r.Uint64())
		b := lib.RandomBytes(int64(len(a)), r.Uint64())
		p.Old.PutFile("a.bin", a)
		p.Old.PutFile("b.bin", b)
		k := r.Range(1, len(a)/lib.BS)
		p.New.PutFile("mixed.bin", append(append([]byte(nil), a[:k*lib.BS]...), b[:k*lib.BS]...))
		ren := append([]byte(nil), a...)
		lib.FillRandom(ren[100:200], r.Uint64())
		p.New.PutFile("a-renamed-edited.bin", ren)
		p.New.PutFile("b.bin", b)
		p.Feat["equal-shares"] = true
		p.Feat["rename+edit"] = true
		return p
	case "selfsimilar":
		// inputs that drive the bsdiff scanner into its overlap resolution: a segment present twice in the
		// old file (the second copy altered near its start) with the middle dropped in the new file; small
		// alphabets; periodic data with a phase shift
		p := &lib.Pair{Old: lib.NewBuild(), New: lib.NewBuild(), Feat: map[string]bool{}}
		for i := 0; i < 3; i++ {
			A := lib.RandomBytes(int64(r.Range(100, 3000)), r.Uint64())
			S := lib.RandomBytes(int64(r.Range(200, 5000)), r.Uint64())
			X := lib.RandomBytes(int64(r.Range(50, 2000)), r.Uint64())
			B := lib.RandomBytes(int64(r.Range(100, 3000)), r.Uint64())
			S2 := append([]byte(nil), S...)
			for k := 0; k < r.Range(1, 4); k++ {
				S2[r.Intn(min(len(S2), 40))] ^= byte(1 + r.Intn(250))
			}
			old := append(append(append(append(append([]byte(nil), A...), S...), X...), S2...), B...)
			nw := append(append(append([]byte(nil), A...), S...), B...)
			if r.Bool() {
				nw = append(append(append([]byte(nil), A...), S2...), B...)
			}
			name := fmt.Sprintf("dupseg%d.bin", i)
			p.Old.PutFile(name, old)
			p.New.PutFile(name, nw)
		}
		small := func(n, alpha int) []byte {
			b := make([]byte, n)
			for i := range b {
				b[i] = byte('a' + r.Intn(alpha))
			}
			return b
		}
		o := small(r.Range(200, 4000), r.Range(2, 3))
		n2 := append([]byte(nil), o...)
		for k := 0; k < 6; k++ {
			n2[r.Intn(len(n2))] = byte('a' + r.Intn(3))
		}
		p.Old.PutFile("alpha.bin", o)
		p.New.PutFile("alpha.bin", append(n2[r.Intn(50):], small(r.Range(0, 60), 2)...))
		per := lib.MakeContent(lib.CPeriod, int64(r.Range(1000, 20000)), uint64(r.Intn(5)), r)
		p.Old.PutFile("phase.bin", per)
		p.New.PutFile("phase.bin", append(append([]byte(nil), per[r.Range(1, 9):]...), per[:r.Range(1, 500)]...))
		p.Feat["self-similar"] = true
		return p
	case "tailedit":
		// same-length files with a few bytes changed close to the end (the add region of the bsdiff series
		// then runs exactly to the old file's last byte), sizes on and off 32 KiB multiples
		p := &lib.Pair{Old: lib.NewBuild(), New: lib.NewBuild(), Feat: map[string]bool{}}
		for i, sz := range []int{r.Range(300, 3000), 32*lib.KB + r.Range(1, 900), 64 * lib.KB, r.Range(70000, 200000)} {
			d := lib.RandomBytes(int64(sz), r.Uint64())
			nd := append([]byte(nil), d...)
			for k := 0; k < 3; k++ {
				nd[sz-1-r.Intn(min(sz, 600))] ^= byte(1 + r.Intn(200))
			}
			if r.Bool() {
				nd[sz-1] ^= 0x40
			}
			name := fmt.Sprintf("tail%d.bin", i)
			p.Old.PutFile(name, d)
			p.New.PutFile(name, nd)
		}
		p.Feat["tail-edit-same-length"] = true
		return p
	case "shrinking":
		// several files that are all optimized with one scanner context, old sizes DEcreasing in processing (path)
		// order; each later file's new version takes in data that sits in an earlier, larger old file beyond the
		// later old file's own length (content moved from a big file into a small one)
		p := &lib.Pair{Old: lib.NewBuild(), New: lib.NewBuild(), Feat: map[string]bool{}}
		A := lib.RandomBytes(int64(r.Range(150000, 300000)), r.Uint64())
		B := lib.RandomBytes(int64(len(A)*r.Range(40, 70)/100), r.Uint64())
		C := lib.RandomBytes(int64(r.Range(2000, 9000)), r.Uint64())
		D := lib.RandomBytes(int64(r.Range(1, 40)), r.Uint64())
		na := append([]byte(nil), A...)
		lib.FillRandom(na[1000:1100], r.Uint64())
		x := len(B) + r.Range(0, len(A)-len(B)-20000)
		nb := append(append(append([]byte(nil), B[:len(B)/2]...), A[x:x+r.Range(5000, 20000)]...), B[len(B)/2:]...)
		y := len(C) + r.Range(0, len(B)-len(C)-3000)
		nc := append(append([]byte(nil), C...), B[y:y+r.Range(500, 3000)]...)
		z := len(D) + r.Range(0, len(C)-len(D)-600)
		nd := append(append([]byte(nil), D...), C[z:z+r.Range(100, 600)]...)
		for i, f := range [][2][]byte{{A, na}, {B, nb}, {C, nc}, {D, nd}} {
			name := fmt.Sprintf("m%d.bin", i)
			p.Old.PutFile(name, f[0])
			p.New.PutFile(name, f[1])
		}
		p.Feat["old-sizes-decreasing+content-moved-from-bigger-file"] = true
		return p
	case "samesize":
		// several optimized files whose OLD versions have exactly the same size (and different bytes)
		p := &lib.Pair{Old: lib.NewBuild(), New: lib.NewBuild(), Feat: map[string]bool{}}
		sz := int64(r.Range(40000, 200000))
		for i := 0; i < 3; i++ {
			d := lib.RandomBytes(sz, r.Uint64())
			nd := append([]byte(nil), d...)
			for k := 0; k < 4; k++ {
				o := r.Intn(len(nd) - 300)
				lib.FillRandom(nd[o:o+r.Range(1, 200)], r.Uint64())
			}
			p.Old.PutFile(fmt.Sprintf("level%d.bin", i), d)
			p.New.PutFile(fmt.Sprintf("level%d.bin", i), nd)
		}
		p.Feat["equal-sized-old-files"] = true
		return p
	case "single":
		// exactly one file is optimized (the others are unchanged or new)
		p := &lib.Pair{Old: lib.NewBuild(), New: lib.NewBuild(), Feat: map[string]bool{}}
		d := lib.RandomBytes(int64(r.Range(1000, 250000)), r.Uint64())
		nd := append([]byte(nil), d...)
		lib.FillRandom(nd[len(nd)/2:len(nd)/2+r.Range(1, 300)], r.Uint64())
		if r.Bool() {
			nd = append(nd[:len(nd)/3], nd[len(nd)/3+r.Range(1, 100):]...)
		}
		p.Old.PutFile("changed.bin", d)
		p.New.PutFile("changed.bin", nd)
		if r.Bool() {
			same := lib.RandomBytes(int64(r.Range(1, 100000)), r.Uint64())
			p.Old.PutFile("same.bin", same)
			p.New.PutFile("same.bin", same)
		}
		p.Feat["single-optimized-file"] = true
		return p
	case "larger":
		return lib.GenPair(seed, lib.GenOpts{MaxFile: 1 * lib.MB, MinFiles: 2, MaxFiles: 4})
	default:
		return lib.GenPair(seed, lib.GenOpts{MaxFile: 3 * lib.BS, MinFiles: 2, MaxFiles: 6, KindSwaps: false})
	}
}

func c07Cases(tier string, seed uint64, flavor string) []lib.Case {
	npairs := 60
	if tier == "thorough" {
		npairs = 1200
	}
	if flavor == "race" {
		npairs = 40
	}
	inComps := []lib.Comp{{Algo: "none"}, {Algo: "gzip", Quality: 3}, {Algo: "brotli", Quality: 1}}
	outComps := []*lib.Comp{nil, {Algo: "none"}, {Algo: "gzip", Quality: 6}, {Algo: "brotli", Quality: 1}}
	sscs := []int{0, 1, 4, -1}
	limits := []int64{0, 1, 100, 70000}
	var cases []lib.Case
	r := lib.NewRng(lib.Mix(seed, 77))
	for i := 0; i < npairs; i++ {
		shape := []string{"tiny", "tailedit", "generic", "shares", "selfsimilar", "larger", "tiny", "shrinking", "single", "samesize"}[i%10]
		s := c07Spec{PairSeed: lib.Mix(seed, 7, uint64(i)), Shape: shape, InComp: inComps[i%3]}
		parts := []int{}
		for p := 0; p <= 16; p++ {
			parts = append(parts, p)
		}
		if shape == "larger" {
			parts = []int{0, 1, 2, 7, 16}
		}
		for _, p := range parts {
			for _, fma := range []bool{false, true} {
				if tier != "thorough" && shape != "tiny" && (p+i)%3 != 0 {
					continue
				}
				op := lib.OptParams{Partitions: p, ForceMapAll: fma, SSC: sscs[r.Intn(4)], SizeLimit: limits[r.Intn(4)], Comp: outComps[r.Intn(4)]}
				if r.Chance(0.6) {
					op.SizeLimit = 0
				}
				s.Params = append(s.Params, op)
			}
		}
		cases = append(cases, lib.Case{Seed: s.PairSeed, Kind: shape, Spec: lib.MustSpec(s)})
	}
	return cases
}

func c07Run(c lib.Case, env *lib.Env) lib.Result {
	var s c07Spec
	lib.ReadSpec(c, &s)
	res := lib.Result{NonTrivial: true}
	pair := c07Pair(s.PairSeed, s.Shape)
	oldDir, newDir := filepath.Join(env.Scratch, "old"), filepath.Join(env.Scratch, "new")
	pair.Old.Materialize(oldDir)
	pair.New.Materialize(newDir)
	dr, err := lib.DiffDirs(oldDir, newDir, s.InComp, nil, nil, nil)
	if err != nil {
		res.Violate("diff-error", err.Error())
		return res
	}
	// odd cases: the two pools are built once and serve every optimizer run of the case (a parameter sweep)
	var shared *lib.OptPools
	if c.ID%2 == 1 {
		shared = &lib.OptPools{}
		defer func() {
			if shared.Target != nil {
				shared.Target.Close()
				shared.Source.Close()
			}
		}()
	}
	if c.ID%4 >= 2 {
		// every pool (optimizer target/source, patcher target) hands a just-used reader back at an arbitrary position
		lib.TargetPoolWrap = func(p lake.Pool) lake.Pool {
			return &lib.StalePool{Inner: p, Rng: lib.NewRng(lib.Mix(s.PairSeed, 71))}
		}
		defer func() { lib.TargetPoolWrap = nil }()
		res.Add("cases_over_stale_position_pools", 1)
	}
	for pi, op := range s.Params {
		desc := fmt.Sprintf("pairSeed=%d shape=%s in=%s params=%+v out=%v sharedPools=%v run=%d", s.PairSeed, s.Shape, s.InComp, op, op.Comp, shared != nil, pi)
		var ob bytes.Buffer
		var oerr error
		var panicked bool
		var stack string
		v := lib.RunWithQuiescence(func() {
			oerr, panicked, stack = lib.Guard(func() error { return lib.OptimizeWith(dr.Patch, oldDir, newDir, op, &ob, shared) })
		}, 120*time.Second)
		res.Add("optimizations", 1)
		if shared != nil && pi > 0 {
			res.Add("optimizations_over_pools_used_before", 1)
		}
		if !v.Returned {
			key := "optimizer-does-not-return"
			if v.Deadlock {
				key = "optimizer-deadlock"
			}
			res.Violate(key, desc, v.Report)
			return res // goroutines are stuck, do not continue in this process
		}
		if panicked {
			res.Violate("optimizer-panic:"+normNums(firstLine(oerr.Error())), desc, stack)
			continue
		}
		if oerr != nil {
			res.Violate("optimizer-error", desc, oerr.Error())
			continue
		}
		opt := ob.Bytes()
		ps, derr := lib.DecodePatch(opt)
		if derr != nil {
			res.Violate("optimized-patch-grammar", desc, derr.Error())
			continue
		}
		nbs := 0
		for _, se := range ps.Series {
			if se.BsHdr != nil {
				nbs++
			}
		}
		res.Add("bsdiff_series_produced", int64(nbs))
		// fresh application
		out := filepath.Join(env.Scratch, fmt.Sprintf("fresh%d", pi))
		aerr, ap, astack := lib.Guard(func() error { return lib.ApplyFresh(opt, oldDir, out) })
		if ap {
			res.Violate("apply-panic", desc, aerr.Error(), astack)
			continue
		}
		if aerr != nil {
			res.Violate("optimized-apply-error", desc, aerr.Error())
			continue
		}
		got, _ := lib.ReadTree(out)
		if ds := lib.DiffBuilds(got, pair.New, false); len(ds) > 0 {
			res.Violate("optimized-result-mismatch:"+diffKinds(ds), append([]string{desc}, lib.DiffStrings(ds, 6)...)...)
		}
		// in place (every 4th parameter set; C02 covers the overlay bowl broadly)
		if pi%4 == 0 && len(kindChanges(pair)) == 0 {
			dir := filepath.Join(env.Scratch, fmt.Sprintf("inplace%d", pi))
			pair.Old.Materialize(dir)
			if err := lib.OverlayApply(opt, dir, filepath.Join(env.Scratch, fmt.Sprintf("stage%d", pi)), nil); err != nil {
				res.Violate("optimized-inplace-error", desc, err.Error())
			} else {
				g2, _ := lib.ReadTree(dir)
				if ds := lib.DiffBuilds(g2, pair.New, false); len(ds) > 0 {
					res.Violate("optimized-inplace-mismatch:"+diffKinds(ds), append([]string{desc}, lib.DiffStrings(ds, 6)...)...)
				}
			}
			res.Add("inplace_applications", 1)
		}
		oc := "default"
		if op.Comp != nil {
			oc = op.Comp.Algo
		}
		res.Feat = append(res.Feat, fmt.Sprintf("%s|p=%d|fma=%v|ssc=%d|limit=%d|out=%s|in=%s|bs=%v", s.Shape, op.Partitions, op.ForceMapAll, op.SSC, op.SizeLimit, oc, s.InComp.Algo, nbs > 0))
		res.SetAdd("partitions", fmt.Sprint(op.Partitions))
	}
	res.Add("executions", int64(len(s.Params)))
	if c.ID < 3 {
		res.Sample = map[string]interface{}{"pairSeed": s.PairSeed, "shape": s.Shape, "inComp": s.InComp.String(), "relations": pair.FeatList(), "parameterSets": len(s.Params), "firstParams": s.Params[0]}
	}
	return res
}

func init() {
	lib.Register(&lib.Property{
		ID:          "C07",
		Level:       "exploration",
		Rule:        "patches from pairs emphasising new files of 0..16 bytes next to old files of 0..40 bytes / several blocks, old files empty / 1-2 bytes, files mapped to a differently named old file (rename+edit), files made of equal shares of two old files, several optimized files with DEcreasing old sizes where each later new file takes in data lying in an earlier, larger old file beyond its own old length, exactly one optimized file, plus generic pairs; in odd cases the target/source pools are built once and serve every optimizer run of the case; optimized by the real rediff with partitions 0..16 (all), ForceMapAll on/off, SuffixSortConcurrency {0,1,4,-1}, RediffSizeLimit {default,1,100,70000}, output compression {default, NONE, GZIP-6, BROTLI-1}, input patches in all three algorithms; optimizer run under a quiescence-based hang detector; optimized patch decoded against the grammar, applied fresh (always) and in place (every 4th), compared with the new build. distinct = distinct (shape, partitions, ForceMapAll, ssc, limit, output, input, produced-bsdiff)",
		Assumptions: []string{"in-place application is skipped for pairs with kind swaps (known C02 findings)"},
		Flavors: func(tier string) []string {
			if tier == "thorough" {
				return []string{"plain", "race"}
			}
			return []string{"plain"}
		},
		Cases:      c07Cases,
		Run:        c07Run,
		Batch:      3,
		CaseBudget: 600 * 1e9,
		Post: func(rs []lib.Result, ev *lib.Evidence) []string {
			sets, _ := ev.Coverage["observed_sets"].(map[string]int)
			if sets["distinct:partitions"] < 17 {
				return []string{fmt.Sprintf("only %d of 17 partition counts exercised", sets["distinct:partitions"])}
			}
			return nil
		},
	})
}

var numsRe = regexp.MustCompile(`\d+`)

// normNums strips concrete numbers from a panic message so that one defect gives one classifier key.
func normNums(s string) string { return numsRe.ReplaceAllString(s, "N") }
