package props

import (
	"bytes"
	"fmt"
	"github.com/itchio/lake"
	"path/filepath"
	"strings"

	"github.com/itchio/wharf/pwr"
	"verif/lib"
)

// C08 — data already present in the old build is not sent again (DESIGN §5 C08).

type c08Spec struct {
	Seed  uint64 `json:"seed"`
	Deriv string `json:"deriv"` // identical | rename-all | dup3 | swap | edits | mixed
	K     int    `json:"k"`
	Big   bool   `json:"big"`
	// StoredSig: the old signature is read back from the stream an earlier WritePatch wrote
	StoredSig bool `json:"storedSig"`
}

var c08Derivs = []string{"identical", "rename-all", "dup3", "swap", "overwrite-with-copy", "edits", "edits", "edits", "mixed", "edits-at-wrap"}

func c08Cases(tier string, seed uint64, flavor string) []lib.Case {
	n := 400
	if tier == "thorough" {
		n = 20000
	}
	var cases []lib.Case
	for i := 0; i < n; i++ {
		s := c08Spec{Seed: lib.Mix(seed, 8, uint64(i)), Deriv: c08Derivs[i%len(c08Derivs)], K: 1 + i%4, Big: i%25 == 24, StoredSig: (i/len(c08Derivs))%2 == 1}
		cases = append(cases, lib.Case{Seed: s.Seed, Kind: s.Deriv, Spec: lib.MustSpec(s)})
	}
	nbig := 6
	if tier == "thorough" {
		nbig = 200
	}
	for i := 0; i < nbig; i++ {
		cases = append(cases, lib.Case{Kind: "edit-big-insertion", Spec: lib.MustSpec(c08Spec{Seed: lib.Mix(seed, 89, uint64(i)), Deriv: "edit-big-insertion", K: 1})})
	}
	if tier == "thorough" {
		cases = append(cases, lib.Case{Kind: "edits-40M", Spec: lib.MustSpec(c08Spec{Seed: lib.Mix(seed, 88), Deriv: "edits-40M", K: 3})})
	}
	return cases
}

type c08Edit struct {
	newPath, oldPath string
	introduced       int64
	k                int
}

func c08Run(c lib.Case, env *lib.Env) lib.Result {
	var s c08Spec
	lib.ReadSpec(c, &s)
	res := lib.Result{NonTrivial: s.Deriv != "identical"}
	r := lib.NewRng(s.Seed)
	old, nw := lib.NewBuild(), lib.NewBuild()
	nfiles := r.Range(1, 6)
	sizes := []int64{3 * lib.BS, 3*lib.BS + 1, 4*lib.BS - 1, 5 * lib.BS, 8*lib.BS + 777, 1*lib.MB + 5, 64*lib.KB + 1, 100, 47751, lib.BS, 2 * lib.BS}
	type of struct {
		path string
		data []byte
	}
	var olds []of
	for i := 0; i < nfiles; i++ {
		sz := r.PickI64(sizes)
		if s.Big && i == 0 {
			sz = 5*lib.MB + 3
		}
		if s.Deriv == "edits-40M" {
			sz = 40*lib.MB + 12345
			nfiles = 1
		}
		if s.Deriv == "edits-at-wrap" {
			sz = int64(r.Range(70, 140))*lib.BS + int64(r.Intn(lib.BS))
			nfiles = 1
		}
		if s.Deriv == "edit-big-insertion" {
			sz = int64(r.Range(40, 100))*lib.BS + int64(r.Intn(lib.BS))
			nfiles = 1
		}
		d := lib.RandomBytes(sz, r.Uint64()) // the edit bound is stated for high-entropy content only
		if !strings.HasPrefix(s.Deriv, "edits") && s.Deriv != "mixed" {
			// the "already present => nothing fresh" clauses hold for ANY content: zero files, zero blocks inside
			// random data, the same block stored back to back, short periods
			switch r.Intn(6) {
			case 0:
				d = make([]byte, sz)
			case 1:
				if sz >= 3*lib.BS {
					z := (r.Range64(0, sz-2*lib.BS) / lib.BS) * lib.BS
					for k := int64(0); k < lib.BS; k++ {
						d[z+k] = 0
					}
					if r.Bool() {
						for k := int64(0); k < lib.BS && k < z; k++ {
							d[k] = 0 // the file also starts with a zero block
						}
					}
				}
			case 2:
				if sz >= 2*lib.BS {
					tile := lib.RandomBytes(lib.BS, r.Uint64())
					for off := int64(0); off+lib.BS <= sz && off < 3*lib.BS; off += lib.BS {
						copy(d[off:], tile)
					}
				}
			case 3:
				d = lib.MakeContent(lib.CPeriod, sz, r.Uint64(), r)
			case 4:
				// two different blocks of this file share their weak hash (a +1/-2/+1 revision of a block)
				if sz >= 3*lib.BS {
					copy(d[2*lib.BS:3*lib.BS], d[:lib.BS])
					for o := int64(2*lib.BS + 100); o+3 < 3*lib.BS; o++ {
						if d[o] < 255 && d[o+1] >= 2 && d[o+2] < 255 {
							d[o], d[o+1], d[o+2] = d[o]+1, d[o+1]-2, d[o+2]+1
							break
						}
					}
				}
			}
		}
		path := fmt.Sprintf("%sf%d.bin", []string{"", "d/", "d/e/"}[r.Intn(3)], i)
		old.PutFile(path, d)
		olds = append(olds, of{path, d})
		if s.Deriv == "edits-40M" || s.Deriv == "edits-at-wrap" || s.Deriv == "edit-big-insertion" {
			break
		}
	}
	var edits []c08Edit
	equalFiles := map[string]bool{} // new paths whose bytes equal some old file
	edit := func(f of, k int) {
		nd, intro := applyEditsC08(r, f.data, k)
		nw.PutFile(f.path, nd)
		edits = append(edits, c08Edit{f.path, f.path, intro, k})
	}
	switch s.Deriv {
	case "identical":
		for _, f := range olds {
			nw.PutFile(f.path, f.data)
			equalFiles[f.path] = true
		}
	case "rename-all":
		for i, f := range olds {
			p := fmt.Sprintf("renamed/r%d.bin", i)
			nw.PutFile(p, f.data)
			equalFiles[p] = true
		}
	case "dup3":
		for i, f := range olds {
			for j := 0; j < 3; j++ {
				p := fmt.Sprintf("dup%d/c%d.bin", j, i)
				nw.PutFile(p, f.data)
				equalFiles[p] = true
			}
			if r.Bool() {
				nw.PutFile(f.path, f.data)
				equalFiles[f.path] = true
			}
		}
	case "swap": // contents swapped between existing paths (rotation)
		for i, f := range olds {
			src := olds[(i+1)%len(olds)]
			nw.PutFile(f.path, src.data)
			equalFiles[f.path] = true
		}
	case "overwrite-with-copy": // an existing path now holds a copy of another old file
		for i, f := range olds {
			src := olds[0]
			if i == 0 {
				src = f
			}
			nw.PutFile(f.path, src.data)
			equalFiles[f.path] = true
		}
	case "edits", "edits-40M":
		for _, f := range olds {
			edit(f, s.K)
		}
	case "edit-big-insertion":
		// ONE edit that brings in more fresh bytes than a data operation may carry (4 MiB), followed by old data
		f := olds[0]
		insLen := int64(4*lib.MB) + int64(r.PickInt([]int{1, lib.BS, 300000, 4*lib.MB + 200000}))
		at := int64(r.PickInt([]int{0, 100, lib.BS, 70000, len(f.data) / 2}))
		nd := append(append(append([]byte(nil), f.data[:at]...), lib.RandomBytes(insLen, r.Uint64())...), f.data[at:]...)
		nw.PutFile(f.path, nd)
		edits = append(edits, c08Edit{f.path, f.path, insLen, 1})
	case "edits-at-wrap":
		// one small edit placed where the differ's 66-block working buffer wraps (blocks 64, 65, 131): the differ is
		// rolling byte by byte right there
		f := olds[0]
		nd := append([]byte(nil), f.data...)
		blk := int64(r.PickInt([]int{64, 65, 65, 65, 131}))
		if (blk+1)*lib.BS >= int64(len(nd)) {
			blk = 65
		}
		off := blk*lib.BS + int64(r.Intn(lib.BS-600))
		var intro int64
		switch r.Intn(3) {
		case 0:
			lib.FillRandom(nd[off:off+500], r.Uint64())
			intro = 500
		case 1:
			ins := lib.RandomBytes(int64(r.Range(1, 700)), r.Uint64())
			nd = append(nd[:off:off], append(ins, nd[off:]...)...)
			intro = int64(len(ins))
		default:
			nd = append(nd[:off:off], nd[off+int64(r.Range(1, 700)):]...)
		}
		nw.PutFile(f.path, nd)
		edits = append(edits, c08Edit{f.path, f.path, intro, 1})
	default: // mixed
		for i, f := range olds {
			switch i % 3 {
			case 0:
				edit(f, s.K)
			case 1:
				p := fmt.Sprintf("moved/m%d.bin", i)
				nw.PutFile(p, f.data)
				equalFiles[p] = true
			default:
				nw.PutFile(f.path, f.data)
				equalFiles[f.path] = true
			}
		}
	}
	oldDir, newDir := filepath.Join(env.Scratch, "old"), filepath.Join(env.Scratch, "new")
	old.Materialize(oldDir)
	nw.Materialize(newDir)
	lib.StoredOldSig = s.StoredSig
	var wrap lib.PoolWrap
	if c.ID%3 == 1 {
		// the new build is read through a pool whose reads come in irregular short pieces
		wrap = func(p lake.Pool) lake.Pool {
			return &lib.ShortReadPool{Inner: p, Rng: lib.NewRng(lib.Mix(s.Seed, 88)), EOFWithData: c.ID%2 == 0}
		}
		res.Add("diffs_over_a_short_reading_source_pool", 1)
	}
	dr, err := lib.DiffDirs(oldDir, newDir, lib.Comp{Algo: "none"}, wrap, nil, nil)
	lib.StoredOldSig = false
	if err != nil {
		res.Violate("diff-error", err.Error())
		return res
	}
	ps, err := lib.DecodePatch(dr.Patch)
	if err != nil {
		res.Violate("patch-grammar", err.Error())
		return res
	}
	desc := fmt.Sprintf("seed=%d deriv=%s k=%d files=%d", s.Seed, s.Deriv, s.K, len(olds))
	// per-file accounting from the independent decoder
	var totalFresh, totalReused, totalNew int64
	freshByPath := map[string]int64{}
	for i, se := range ps.Series {
		f := ps.New.Files[i]
		totalNew += f.Size
		var fresh, reused int64
		for _, op := range se.Ops {
			switch op.Type {
			case pwr.SyncOp_DATA:
				fresh += int64(len(op.Data))
			case pwr.SyncOp_BLOCK_RANGE:
				osz := ps.Old.Files[op.FileIndex].Size
				end := (op.BlockIndex + op.BlockSpan) * lib.BS
				if end > osz {
					end = osz
				}
				reused += end - op.BlockIndex*lib.BS
			}
		}
		if fresh+reused != f.Size {
			res.Violate("per-file-accounting", desc, fmt.Sprintf("%s: decoded ops give fresh %d + reused %d != size %d", f.Path, fresh, reused, f.Size))
		}
		freshByPath[f.Path] = fresh
		totalFresh += fresh
		totalReused += reused
		if equalFiles[f.Path] && fresh != 0 {
			res.Violate("fresh-bytes-for-content-present-in-old", desc, fmt.Sprintf("%s (%d bytes) equals an old file but its series carries %d DATA bytes", f.Path, f.Size, fresh))
		}
	}
	res.Add("files_accounted", int64(len(ps.Series)))
	if dr.Fresh+dr.Reuse != totalNew {
		res.Violate("counters-do-not-add-up", desc, fmt.Sprintf("FreshBytes %d + ReusedBytes %d = %d, new build is %d bytes", dr.Fresh, dr.Reuse, dr.Fresh+dr.Reuse, totalNew))
	}
	if dr.Fresh != totalFresh {
		res.Violate("freshbytes-counter-wrong", desc, fmt.Sprintf("FreshBytes %d, DATA bytes in the patch %d", dr.Fresh, totalFresh))
	}
	if dr.Reuse != totalReused {
		res.Violate("reusedbytes-counter-wrong", desc, fmt.Sprintf("ReusedBytes %d, bytes covered by block ranges in the patch %d", dr.Reuse, totalReused))
	}
	if s.Deriv == "identical" && totalFresh != 0 {
		res.Violate("identical-builds-carry-data", desc, fmt.Sprintf("%d DATA bytes between identical builds", totalFresh))
	}
	for _, e := range edits {
		bound := e.introduced + int64(2*e.k+2)*lib.BS
		fresh := freshByPath[e.newPath]
		res.Add("edited_files_checked", 1)
		margin := bound - fresh
		res.Max("edit_bound_used_permille", fresh*1000/maxi64(bound, 1))
		if fresh > bound {
			res.Violate("edit-bound-exceeded", desc, fmt.Sprintf("%s: fresh %d > introduced %d + (2*%d+2)*64KiB = %d (file %d bytes)", e.newPath, fresh, e.introduced, e.k, bound, len(nw.E[e.newPath].Data)))
		}
		_ = margin
	}
	res.Feat = []string{fmt.Sprintf("%s|k=%d|files=%d|big=%v|storedsig=%v", s.Deriv, s.K, len(olds), s.Big, s.StoredSig)}
	if s.StoredSig {
		res.Add("diffs_against_a_stored_signature", 1)
	}
	if c.ID%23 == 0 {
		res.Sample = map[string]interface{}{"seed": s.Seed, "derivation": s.Deriv, "k": s.K, "files": len(olds), "newBytes": totalNew, "fresh": totalFresh, "reused": totalReused, "editedFiles": len(edits)}
	}
	return res
}

func maxi64(a, b int64) int64 {
	if a > b {
		return a
	}
	return b
}

// applyEditsC08: k localised edits; returns new content and the bytes the edits introduce (deletions introduce 0).
func applyEditsC08(r *lib.Rng, data []byte, k int) ([]byte, int64) {
	out := append([]byte(nil), data...)
	var intro int64
	lens := []int64{1, 10, 1000, lib.BS - 1, lib.BS, lib.BS + 1, 100000, 300000}
	for i := 0; i < k; i++ {
		l := r.PickI64(lens)
		n := int64(len(out))
		var off int64
		switch r.Intn(5) {
		case 0:
			off = r.Range64(0, min64b(n, lib.BS-1)) // inside the first block
		case 1:
			off = (r.Range64(0, n) / lib.BS) * lib.BS // at a block boundary
		case 2:
			off = n - r.Range64(0, min64b(n, 2*lib.BS)) // inside the last two blocks
		default:
			off = r.Range64(0, n)
		}
		switch r.Intn(3) {
		case 0: // overwrite
			end := off + l
			if end > n {
				end = n
			}
			if end > off {
				lib.FillRandom(out[off:end], r.Uint64())
				intro += end - off
			}
		case 1: // insertion (length is not a multiple of anything: shifts all following data)
			ins := lib.RandomBytes(l, r.Uint64())
			out = append(out[:off:off], append(ins, out[off:]...)...)
			intro += l
		default: // deletion
			end := off + l
			if end > n {
				end = n
			}
			out = append(out[:off:off], out[end:]...)
		}
	}
	return out, intro
}

func min64b(a, b int64) int64 {
	if a < b {
		return a
	}
	return b
}

var _ = bytes.Equal

func init() {
	lib.Register(&lib.Property{
		ID:          "C08",
		Level:       "exploration",
		Rule:        "builds of 1..6 high-entropy files (100 bytes .. 5 MiB+3, one 40 MiB file in thorough) and derivations: identical build, rename all, duplicate x3 (with/without original), contents rotated between existing paths, an existing path overwritten by a copy of another old file, one insertion of 4 MiB + {1, B, 300000, 4.2 MiB} bytes (more than a data operation carries) followed by old data, k in 1..4 localized edits (overwrite / insertion / deletion of {1,10,1000,B-1,B,B+1,100000,300000} bytes at offsets inside the first block, at block boundaries, inside the last two blocks, anywhere), mixed. A third of the diffs read the new build through a pool that returns irregular short reads (also with the last bytes together with EOF). Oracle: per-file DATA / BLOCK_RANGE accounting from the independently decoded patch, cross-checked with DiffContext.FreshBytes/ReusedBytes; files equal to an old file carry 0 DATA bytes; fresh <= introduced + (2k+2)*64KiB per edited file. distinct = distinct (derivation, k, file count, big)",
		Assumptions: []string{"the bound is evaluated on high-entropy content only (the statement's domain)", "introduced = bytes inserted or overwritten by the generator; deletions introduce 0"},
		Cases:       c08Cases,
		Run:         c08Run,
		Batch:       5,
		CaseBudget:  600 * 1e9,
	})
}
