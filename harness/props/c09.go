package props

import (
	"bytes"
	"fmt"
	"github.com/itchio/lake"
	"os"
	"path/filepath"
	"strings"

	"github.com/itchio/lake/pools/fspool"
	"github.com/itchio/savior"
	"github.com/itchio/savior/seeksource"
	"github.com/itchio/wharf/pwr"
	"github.com/itchio/wharf/pwr/bowl"
	"github.com/itchio/wharf/pwr/patcher"
	"verif/lib"
)

// C09 — applying through the safekeeper never yields a silently wrong result (DESIGN §5 C09).

type c09Spec struct {
	Seed      uint64      `json:"seed"`
	Optimized bool        `json:"optimized"`
	Damage    *lib.Damage `json:"damage,omitempty"`
	Reuse     string      `json:"reuse"`   // how the damaged file is reused by the patch (label)
	Aligned   bool        `json:"aligned"` // pair contains whole-file copies of block-aligned files
	// SigFault: the old signature cannot be loaded: "open-error" (Open fails), "truncated" (stream cut in the middle
	// of the hashes), "garbage" (not a signature stream). Then no read can be checked: error or correct result only.
	SigFault string `json:"sigFault,omitempty"`
}

// c09Pair: every way of reusing old data, with reused ranges >= 3 blocks before the end.
func c09Pair(seed uint64, aligned bool) *lib.Pair {
	r := lib.NewRng(lib.Mix(seed, 909))
	p := &lib.Pair{Old: lib.NewBuild(), New: lib.NewBuild(), Feat: map[string]bool{}}
	rb := func(n int64) []byte { return lib.RandomBytes(n, r.Uint64()) }
	// block ranges in the middle of a large file (plain) / bsdiff series (optimized)
	big := rb(int64(r.Range(9, 12))*lib.BS + int64(r.Range(1, lib.BS-1)))
	nb := append([]byte(nil), big...)
	lib.FillRandom(nb[lib.BS+100:lib.BS+300], r.Uint64()) // edit in block 1: blocks 0 and 2.. are reused
	p.Old.PutFile("ranged.bin", big)
	p.New.PutFile("ranged.bin", nb)
	// whole-file copies: size = 0 mod 64K (exactly 64K, 128K) and != 0 mod 64K
	if aligned {
		p.Old.PutFile("copy-64k.bin", rb(lib.BS))
		p.New.PutFile("copy-64k.bin", p.Old.E["copy-64k.bin"].Data)
		p.Old.PutFile("copy-128k.bin", rb(2*lib.BS))
		p.New.PutFile("renamed-128k.bin", p.Old.E["copy-128k.bin"].Data)
	}
	p.Old.PutFile("copy-odd.bin", rb(2*lib.BS+int64(r.Range(1, lib.BS-1))))
	p.New.PutFile("copy-odd.bin", p.Old.E["copy-odd.bin"].Data)
	p.Old.PutFile("copy-small.bin", rb(int64(r.Range(1, 5000))))
	p.New.PutFile("sub/copy-small.bin", p.Old.E["copy-small.bin"].Data)
	// contents for which a truncated block can look like the block that was validated just before it:
	// a file ending in zeros that is the first thing validated, two identical files read back to back,
	// a file whose blocks all carry the same bytes
	zt := append(rb(int64(r.Range(100, 3000))), make([]byte, r.Range(2000, 40000))...)
	p.Old.PutFile("aaa-zerotail.bin", zt)
	p.New.PutFile("aaa-zerotail.bin", zt)
	tw := rb(int64(r.Range(500, 60000)))
	p.Old.PutFile("twin1.bin", tw)
	p.Old.PutFile("twin2.bin", tw)
	p.New.PutFile("twin1.bin", tw)
	p.New.PutFile("twin2.bin", tw)
	per := rb(lib.BS)
	pd := append(append(append([]byte(nil), per...), per...), per[:r.Range(1000, 60000)]...)
	p.Old.PutFile("periodic.bin", pd)
	p.New.PutFile("periodic.bin", pd)
	// bsdiff series that read the old file out of order / at unaligned offsets
	sa, sb := rb(2*lib.BS+int64(r.Range(1, 3000))), rb(2*lib.BS+int64(r.Range(1, 3000)))
	swOld := append(append([]byte(nil), sa...), sb...)
	swNew := append(append([]byte(nil), sb...), sa...) // later part first: backward seeks in the optimized patch
	for k := 0; k < 4; k++ {
		swNew[r.Intn(len(swNew))] ^= 0x08
	}
	p.Old.PutFile("swapped-halves.bin", swOld)
	p.New.PutFile("swapped-halves.bin", swNew)
	shOld := rb(lib.BS + int64(r.Range(2000, 30000))) // a short last block of at most 32 KiB
	shNew := append([]byte(nil), shOld[r.Range(500, 1500):]...)
	for k := 0; k < 3; k++ {
		shNew[r.Intn(len(shNew))] ^= 0x08
	}
	p.Old.PutFile("shifted.bin", shOld)
	p.New.PutFile("shifted.bin", shNew)
	// one old file copied to several new paths (the same old file is read several times in a row)
	p.Old.PutFile("dup-src.bin", rb(lib.BS+int64(r.Range(1, 3000))))
	p.New.PutFile("dup-src.bin", p.Old.E["dup-src.bin"].Data)
	p.New.PutFile("dup/copy1.bin", p.Old.E["dup-src.bin"].Data)
	p.New.PutFile("dup/copy2.bin", p.Old.E["dup-src.bin"].Data)
	// two old files whose paths differ only by letter case (legal here), both reused; and a new file that starts
	// with the first blocks of the old file that was copied whole right before it (same old file twice in a row,
	// the second time from block 0)
	p.Old.PutFile("assets/Level.dat", rb(lib.BS+int64(r.Range(1, 3000))))
	p.Old.PutFile("assets/level.dat", rb(int64(r.Range(100, 3000))))
	p.New.PutFile("assets/Level.dat", p.Old.E["assets/Level.dat"].Data)
	p.New.PutFile("assets/level.dat", p.Old.E["assets/level.dat"].Data)
	kept := rb(3*lib.BS + int64(r.Range(1, 3000)))
	p.Old.PutFile("kept-then-prefix.bin", kept)
	p.New.PutFile("kept-then-prefix.bin", kept)
	p.New.PutFile("kept-then-prefix.bin.more", append(append([]byte(nil), kept[:2*lib.BS]...), rb(5000)...))
	// an old file that is read, then other old files, then read AGAIN much later (pool order A .. B .. A)
	p.New.PutFile("zzz-late-copy-of-copy-odd.bin", p.Old.E["copy-odd.bin"].Data)
	p.New.PutFile("zzz-late-prefix-of-ranged.bin", append(append([]byte(nil), big[:3*lib.BS]...), rb(100)...))
	// empty old file kept; a file the patch does not reference; brand-new data
	p.Old.PutFile("empty.bin", nil)
	p.New.PutFile("empty.bin", nil)
	p.Old.PutFile("unreferenced.bin", rb(3*lib.BS+17))
	p.New.PutFile("fresh.bin", rb(lib.BS+9))
	return p
}

var c09Reuse = map[string]string{"ranged.bin": "block-range|bsdiff", "copy-64k.bin": "whole-file-aligned", "copy-128k.bin": "whole-file-aligned",
	"copy-odd.bin": "whole-file-unaligned", "copy-small.bin": "whole-file-unaligned", "dup-src.bin": "whole-file-duplicated", "swapped-halves.bin": "block-range|bsdiff", "shifted.bin": "block-range|bsdiff", "aaa-zerotail.bin": "whole-file-zerotail", "twin1.bin": "whole-file-twin", "twin2.bin": "whole-file-twin", "periodic.bin": "whole-file-periodic", "empty.bin": "empty", "unreferenced.bin": "unreferenced",
	"assets/Level.dat": "whole-file-casetwin", "assets/level.dat": "whole-file-casetwin", "kept-then-prefix.bin": "whole-file+block-range"}

func c09Damages(p *lib.Pair) []lib.Damage {
	var out []lib.Damage
	for _, e := range p.Old.Files() {
		size := int64(len(e.Data))
		for _, d := range lib.FileDamages(e.Path, size) {
			switch d.Op {
			case "todir", "tononemptydir", "tosymlink", "tofifo":
				continue
			}
			out = append(out, d)
		}
		if size > 3*lib.BS { // bit flips in reused and unused blocks, by position
			out = append(out, lib.Damage{Op: "flip", Path: e.Path, N: lib.BS + 150}, lib.Damage{Op: "flip", Path: e.Path, N: 3*lib.BS + 5}, lib.Damage{Op: "extend", Path: e.Path, N: 2 * lib.BS})
		}
	}
	return out
}

func c09Cases(tier string, seed uint64, flavor string) []lib.Case {
	npairs := 2
	if tier == "thorough" {
		npairs = 80
	}
	var cases []lib.Case
	for i := 0; i < npairs; i++ {
		ps := lib.Mix(seed, 9, uint64(i))
		aligned := i%2 == 0
		pair := c09Pair(ps, aligned)
		for _, opt := range []bool{false, true} {
			cases = append(cases, lib.Case{Seed: ps, Kind: "undamaged", Spec: lib.MustSpec(c09Spec{Seed: ps, Optimized: opt, Reuse: "all", Aligned: aligned})})
			for _, d := range c09Damages(pair) {
				dd := d
				cases = append(cases, lib.Case{Seed: ps, Kind: d.Op, Spec: lib.MustSpec(c09Spec{Seed: ps, Optimized: opt, Damage: &dd, Reuse: c09Reuse[d.Path], Aligned: aligned})})
			}
			// the signature itself cannot be loaded
			for _, sf := range []string{"open-error", "truncated", "garbage"} {
				cases = append(cases, lib.Case{Seed: ps, Kind: "sig-" + sf, Spec: lib.MustSpec(c09Spec{Seed: ps, Optimized: opt, Reuse: "all", Aligned: aligned, SigFault: sf})})
				nflip := 0
				for _, d := range c09Damages(pair) {
					if d.Op == "flip" && c09Reuse[d.Path] != "unreferenced" && nflip < 3 {
						dd := d
						cases = append(cases, lib.Case{Seed: ps, Kind: "sig-" + sf + "+flip", Spec: lib.MustSpec(c09Spec{Seed: ps, Optimized: opt, Damage: &dd, Reuse: c09Reuse[d.Path], Aligned: aligned, SigFault: sf})})
						nflip++
					}
				}
			}
		}
	}
	return cases
}

// c09Inner: in odd cases the pool under the safekeeper hands a just-used reader back at an arbitrary position.
func c09Inner(p lake.Pool, id int, seed uint64) lake.Pool {
	if id%2 == 1 {
		return &lib.StalePool{Inner: p, Rng: lib.NewRng(lib.Mix(seed, 91))}
	}
	return p
}

func c09Run(c lib.Case, env *lib.Env) lib.Result {
	var s c09Spec
	lib.ReadSpec(c, &s)
	res := lib.Result{NonTrivial: s.Damage != nil}
	pair := c09Pair(s.Seed, s.Aligned)
	oldDir, newDir, emptyDir := filepath.Join(env.Scratch, "old"), filepath.Join(env.Scratch, "new"), filepath.Join(env.Scratch, "nil")
	pair.Old.Materialize(oldDir)
	pair.New.Materialize(newDir)
	os.MkdirAll(emptyDir, 0o755)
	dr, err := lib.DiffDirs(oldDir, newDir, lib.Comp{Algo: "none"}, nil, nil, nil)
	if err != nil {
		res.Violate("diff-error", err.Error())
		return res
	}
	patch := dr.Patch
	if s.Optimized {
		var ob bytes.Buffer
		if err := lib.Optimize(patch, oldDir, newDir, lib.OptParams{Partitions: 2, Comp: &lib.Comp{Algo: "none"}}, &ob); err != nil {
			res.Inconclusive("optimizer: " + err.Error())
			return res
		}
		patch = ob.Bytes()
	}
	// signature of the OLD build as wharf writes it
	sr, err := lib.DiffDirs(emptyDir, oldDir, lib.Comp{Algo: "brotli", Quality: 1}, nil, nil, nil)
	if err != nil {
		res.Inconclusive("sign old: " + err.Error())
		return res
	}
	oldSig := sr.Sig
	dclass, shape := "undamaged", ""
	if s.Damage != nil {
		if err := lib.ApplyDamage(oldDir, *s.Damage); err != nil {
			res.Inconclusive("damage: " + err.Error())
			return res
		}
		dclass = s.Damage.Op
		shape = damageShape([]lib.Damage{*s.Damage})
	}
	reuse := s.Reuse
	if strings.Contains(reuse, "|") {
		reuse = strings.Split(reuse, "|")[0]
		if s.Optimized {
			reuse = "bsdiff"
		}
	}
	desc := fmt.Sprintf("seed=%d optimized=%v damage=%v reuse=%s sigFault=%q", s.Seed, s.Optimized, s.Damage, reuse, s.SigFault)
	switch s.SigFault {
	case "truncated":
		oldSig = oldSig[:len(oldSig)*2/3]
	case "garbage":
		oldSig = lib.RandomBytes(int64(len(oldSig)), s.Seed)
	}
	opens := 0
	out := filepath.Join(env.Scratch, "out")
	aerr, panicked, stack := lib.Guard(func() error {
		p, err := patcher.New(seeksource.FromBytes(patch), lib.Quiet())
		if err != nil {
			return err
		}
		sk, err := pwr.NewSafeKeeper(pwr.SafeKeeperParams{
			Inner: c09Inner(fspool.New(p.GetTargetContainer(), oldDir), c.ID, s.Seed),
			Open: func() (savior.SeekSource, error) {
				opens++
				if s.SigFault == "open-error" {
					return nil, fmt.Errorf("verif: signature cannot be opened")
				}
				src := seeksource.FromBytes(oldSig)
				if _, err := src.Resume(nil); err != nil {
					return nil, err
				}
				return src, nil
			},
		})
		if err != nil {
			return err
		}
		b, err := bowl.NewFreshBowl(bowl.FreshBowlParams{SourceContainer: p.GetSourceContainer(), TargetContainer: p.GetTargetContainer(), TargetPool: sk, OutputFolder: out})
		if err != nil {
			return err
		}
		if err := p.Resume(nil, sk, b); err != nil {
			return err
		}
		return b.Commit()
	})
	res.Add("applications", 1)
	if panicked {
		res.Violate("safekeeper-apply-panic", desc, aerr.Error(), stack)
		return res
	}
	key := fmt.Sprintf("%s/%s", reuse, dclass)
	if s.SigFault != "" {
		key += "/sig-" + s.SigFault
		res.Add("applications_with_unloadable_signature", 1)
		res.Max("max_signature_open_calls_with_unloadable_signature", int64(opens))
	}
	if shape != "" {
		key += "@" + strings.SplitN(shape, ":", 2)[1]
	}
	if aerr != nil {
		res.Add("applications_failed_with_error", 1)
		if s.Damage == nil && s.SigFault == "" {
			res.Violate("undamaged-rejected", desc, aerr.Error())
		} else if s.Reuse == "unreferenced" {
			// the statement allows an error for any damage; just count it
			res.Add("errors_for_damage_to_unreferenced_file", 1)
		}
	} else {
		got, rerr := lib.ReadTree(out)
		if rerr != nil {
			res.Inconclusive(rerr.Error())
			return res
		}
		if ds := lib.DiffBuilds(got, pair.New, false); len(ds) > 0 {
			res.Violate("silent-wrong-result:"+key, append([]string{desc}, lib.DiffStrings(ds, 5)...)...)
		} else {
			res.Add("applications_correct", 1)
		}
	}
	res.Feat = []string{fmt.Sprintf("%s|opt=%v", key, s.Optimized)}
	if c.ID%37 == 0 {
		res.Sample = map[string]interface{}{"seed": s.Seed, "optimized": s.Optimized, "damage": s.Damage, "reuse": reuse, "error": aerr != nil}
	}
	return res
}

func init() {
	lib.Register(&lib.Property{
		ID:          "C09",
		Level:       "fault_enumeration",
		Rule:        "pairs in which the patch reuses old data in every way (block ranges in the middle of a large file >= 3 blocks before its end / bsdiff series in the optimized patch; whole-file copies of files of exactly 64 KiB, 128 KiB, unaligned sizes, < 1 block; an empty file; a file the patch does not reference; two old files whose paths differ only by case; a kept file followed by a new file starting with its first blocks); after diffing, the old tree gets one damage from the boundary list per case (bit flips at first/last byte of every block and in reused/unused blocks, truncation to {0,1,every block boundary ±1,size-1}, extension by {1,5,up to the boundary ±1,1 block,2 blocks}, fill of the empty file, deletion) or none; plus, per pair, a signature that cannot be loaded (Open fails / stream truncated inside the hashes / garbage) with and without a bit flip in a reused block; applied with patcher + fresh bowl whose target pool is pwr.NewSafeKeeper over the signature of the old build as written by wharf. Oracle: error OR output tree == new build; undamaged: no error AND equal. distinct = distinct (reuse kind, damage class, boundary class, optimized)",
		Assumptions: []string{"the safekeeper is wired the way butler wires it: it is both the patcher's target pool and the fresh bowl's TargetPool"},
		Cases:       c09Cases,
		Run:         c09Run,
		Batch:       20,
	})
}
