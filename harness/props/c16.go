package props

import (
	"archive/zip"
	"context"
	"fmt"
	"github.com/itchio/lake/pools"
	"github.com/itchio/lake/tlc"
	"io"
	"os"
	"path/filepath"
	"runtime"
	"strings"
	"syscall"
	"time"

	"github.com/itchio/headway/state"
	"github.com/itchio/wharf/pwr"
	"verif/lib"
)

// C16 — validation always terminates and a clean verdict is never caused by interruption (DESIGN §5 C16).

type c16Spec struct {
	Build     string `json:"build"`    // files3 | files300 | dirs2500 | files1300
	Damage    string `json:"damage"`   // none | first | last | all | n1023 | n1024 | n1025
	Consumer  string `json:"consumer"` // failfast | wounds-good | wounds-missingdir | wounds-devfull | printer | heal-good | heal-missing | heal-corrupt-N
	Cancel    string `json:"cancel"`   // none | before | point:<hook>:<n> | progress:<n>
	Sched     string `json:"sched"`
	SchedSeed uint64 `json:"schedSeed"`
	Procs     int    `json:"procs"`
	Seed      uint64 `json:"seed"`
}

func c16Build(name string, seed uint64) *lib.Build {
	b := lib.NewBuild()
	r := lib.NewRng(lib.Mix(seed, 1616))
	switch name {
	case "files3":
		b.PutFile("a.bin", lib.RandomBytes(3*lib.BS+5, r.Uint64()))
		b.PutFile("d/b.bin", lib.RandomBytes(lib.BS, r.Uint64()))
		b.PutFile("d/e/c.bin", lib.RandomBytes(100, r.Uint64()))
		b.PutSymlink("lnk", "a.bin")
		b.PutDir("hollow")
		b.PutFile("z-empty.bin", nil) // the LAST file of the container is empty: its only possible wound has an empty range
	case "huge": // more blocks than the wounds channel has slots (1024), then one more file
		b.PutFile("a-huge.bin", lib.RandomBytes(1536*lib.BS+77, r.Uint64()))
		b.PutFile("z-small.bin", lib.RandomBytes(100, r.Uint64()))
	case "files1": // a single file: it is the first AND the last one the file worker gets
		b.PutFile("only.bin", lib.RandomBytes(lib.BS-100, r.Uint64()))
	case "files300":
		for i := 0; i < 300; i++ {
			b.PutFile(fmt.Sprintf("d%d/f%03d.bin", i%7, i), lib.RandomBytes(int64(1+r.Intn(400)), r.Uint64()))
		}
	case "files1300":
		for i := 0; i < 1300; i++ {
			b.PutFile(fmt.Sprintf("d%02d/f%04d.bin", i%20, i), lib.RandomBytes(int64(1+r.Intn(60)), r.Uint64()))
		}
	case "dirs2500":
		for i := 0; i < 2500; i++ {
			b.PutDir(fmt.Sprintf("top%02d/dir%04d", i%50, i))
		}
		b.PutFile("top00/only.bin", lib.RandomBytes(500, r.Uint64()))
	}
	return b
}

func c16Cases(tier string, seed uint64, flavor string) []lib.Case {
	var cases []lib.Case
	nperturb := 2
	if tier == "thorough" {
		nperturb = 16
	}
	add := func(s c16Spec) {
		s.Seed = lib.Mix(seed, 16)
		cases = append(cases, lib.Case{Kind: s.Consumer + "/" + s.Damage, Spec: lib.MustSpec(s)})
	}
	consumers := []string{"failfast", "wounds-good", "wounds-missingdir", "wounds-devfull", "printer", "heal-good", "heal-missing", "heal-corrupt-1", "heal-corrupt-2", "heal-corrupt-last"}
	i := 0
	// --- termination under many wounds / failing consumers
	for _, bd := range [][2]string{{"files3", "none"}, {"files3", "first"}, {"files3", "last"}, {"files3", "all"},
		{"files300", "all"}, {"files300", "last"}, {"files1300", "all"}, {"files1300", "n1023"}, {"files1300", "n1024"}, {"files1300", "n1025"},
		{"dirs2500", "all"}, {"dirs2500", "n1025"}} {
		for _, cons := range consumers {
			if (bd[0] == "dirs2500" || bd[0] == "files1300") && strings.HasPrefix(cons, "heal-corrupt") && tier != "thorough" {
				continue
			}
			for k := 0; k < nperturb; k++ {
				sched := "perturb"
				if k == 0 {
					sched = "none"
				}
				add(c16Spec{Build: bd[0], Damage: bd[1], Consumer: cons, Cancel: "none", Sched: sched, SchedSeed: lib.Mix(seed, uint64(i)), Procs: []int{1, 16}[i%2]})
				i++
			}
		}
	}
	// --- a consumer that returns at the first wound while the worker still has more than 1024 blocks of that file to report on
	for k, cons := range []string{"failfast", "wounds-missingdir", "wounds-devfull", "failfast"} {
		add(c16Spec{Build: "huge", Damage: "first", Consumer: cons, Cancel: "none", Sched: []string{"none", "perturb"}[k/3], SchedSeed: lib.Mix(seed, uint64(i)), Procs: []int{1, 16}[k%2]})
		i++
	}
	// --- cancellation instants, fail-fast (the clean-verdict clause) and the other consumers (termination)
	cancelCases := func(build string, damages []string, nfiles int, every int) {
		var points []string
		points = append(points, "before", "point:val-dirs-symlinks-done:1", "point:val-files-queued:1", "point:val-close-wounds:1", "point:val-dir:1", "point:val-dir:2")
		for f := 1; f <= nfiles; f += every {
			points = append(points, fmt.Sprintf("point:val-main-select:%d", f), fmt.Sprintf("point:val-file-start:%d", f))
		}
		for _, n := range []int{1, 2, 5} {
			points = append(points, fmt.Sprintf("progress:%d", n))
		}
		for _, dmg := range damages {
			for _, pt := range points {
				for _, cons := range []string{"failfast", "failfast", "wounds-good", "heal-good", "printer"} {
					if cons != "failfast" && i%3 != 0 {
						i++
						continue
					}
					sched := []string{"none", "perturb"}[i%2]
					add(c16Spec{Build: build, Damage: dmg, Consumer: cons, Cancel: pt, Sched: sched, SchedSeed: lib.Mix(seed, uint64(i)), Procs: []int{1, 16}[(i/2)%2]})
					i++
				}
			}
		}
	}
	// cancellation while the healer is between its own context check and queueing a file
	// (hook heal-wound sits exactly there): the healing goroutine sees the cancellation first
	for _, dmg := range []string{"all", "last", "first"} {
		for n := 1; n <= 9; n++ {
			for rep := 0; rep < 4; rep++ {
				add(c16Spec{Build: "files3", Damage: dmg, Consumer: "heal-good", Cancel: fmt.Sprintf("point:heal-wound:%d", n), Sched: "cancel-sleep", SchedSeed: lib.Mix(seed, uint64(i)), Procs: []int{4, 16}[rep%2]})
				i++
			}
		}
	}
	// cancellation while more wounds are outstanding than the wound channel holds, for every consumer kind
	for _, bd := range [][2]string{{"dirs2500", "all"}, {"files1300", "all"}} {
		for _, cons := range []string{"printer", "wounds-good", "failfast", "heal-good"} {
			for _, pt := range []string{"before", "point:val-dir:1", "point:val-dirs-symlinks-done:1", "point:val-main-select:1", "point:val-main-select:700", "progress:1"} {
				add(c16Spec{Build: bd[0], Damage: bd[1], Consumer: cons, Cancel: pt, Sched: []string{"none", "perturb"}[i%2], SchedSeed: lib.Mix(seed, uint64(i)), Procs: []int{1, 16}[(i/2)%2]})
				i++
			}
		}
	}
	// a verdict must never depend on which ready branch a select happens to take: repeat the earliest instants
	for rep := 0; rep < 20; rep++ {
		for _, pt := range []string{"before", "point:val-dir:1", "point:val-main-select:1"} {
			add(c16Spec{Build: "files3", Damage: []string{"first", "last", "all"}[rep%3], Consumer: "failfast", Cancel: pt, Sched: []string{"none", "perturb"}[rep%2], SchedSeed: lib.Mix(seed, uint64(i)), Procs: []int{1, 2, 16}[rep%3]})
			i++
		}
	}
	cancelCases("files3", []string{"none", "first", "last", "all"}, 4, 1)
	// the target is one regular file, cut at block boundaries
	for _, dm := range []string{"cut-2blocks", "cut-1block", "cut-0", "cut-mid", "intact"} {
		for _, cons := range []string{"failfast", "failfast", "wounds-good", "printer"} {
			add(c16Spec{Build: "singlefile", Damage: dm, Consumer: cons, Cancel: "none", Sched: "none", SchedSeed: lib.Mix(seed, uint64(i)), Procs: 4})
			i++
		}
	}
	// the only damage is a re-spelled symlink destination
	for k := 0; k < 6; k++ {
		add(c16Spec{Build: "files3", Damage: "respell", Consumer: "failfast", Cancel: "none", Sched: "none", SchedSeed: lib.Mix(seed, uint64(i)), Procs: 4})
		i++
	}
	// a named pipe in place of a file
	for _, cons := range []string{"failfast", "wounds-good", "printer", "heal-good"} {
		add(c16Spec{Build: "files3", Damage: "fifo", Consumer: cons, Cancel: "none", Sched: "none", SchedSeed: lib.Mix(seed, uint64(i)), Procs: 4})
		i++
	}
	// the file worker fails on the only file of a build whose content is wrong as well: no clean verdict
	for _, cons := range []string{"failfast", "wounds-good", "printer"} {
		for k := 0; k < 6; k++ {
			add(c16Spec{Build: "files1", Damage: "short-signature+all", Consumer: cons, Cancel: "none", Sched: []string{"none", "perturb"}[k%2], SchedSeed: lib.Mix(seed, uint64(i)), Procs: []int{1, 4, 16}[k%3]})
			i++
		}
	}
	// the file worker fails (the signature carries one hash less than the container needs): Validate must still return
	for _, bdn := range []string{"files3", "files300"} {
		for _, cons := range []string{"failfast", "wounds-good", "printer", "heal-good"} {
			for k := 0; k < 6; k++ {
				add(c16Spec{Build: bdn, Damage: "short-signature", Consumer: cons, Cancel: "none", Sched: []string{"none", "perturb"}[k%2], SchedSeed: lib.Mix(seed, uint64(i)), Procs: []int{1, 4, 16}[k%3]})
				i++
			}
		}
	}
	ev := 15
	if tier == "thorough" {
		ev = 1 // every file of the 300-file build
	}
	cancelCases("files300", []string{"last", "all", "none"}, 300, ev)
	return cases
}

// corruptZipEntry rewrites the archive with the data of the n-th file entry (1-based; -1 = last) replaced by junk of the same size.
func corruptZipEntry(src, dst string, n int) error {
	zr, err := zip.OpenReader(src)
	if err != nil {
		return err
	}
	defer zr.Close()
	out, err := os.Create(dst)
	if err != nil {
		return err
	}
	defer out.Close()
	zw := zip.NewWriter(out)
	var fileIdx []int
	for i, f := range zr.File {
		if f.FileInfo().Mode().IsRegular() {
			fileIdx = append(fileIdx, i)
		}
	}
	target := -1
	if n < 0 {
		target = fileIdx[len(fileIdx)-1]
	} else if n <= len(fileIdx) {
		target = fileIdx[n-1]
	}
	for i, f := range zr.File {
		if i == target {
			// a stored entry whose CRC does not match its content: reading it fails
			raw, err := zw.CreateRaw(&zip.FileHeader{Name: f.Name, Method: zip.Store, CRC32: 0xdeadbeef, CompressedSize64: f.UncompressedSize64, UncompressedSize64: f.UncompressedSize64})
			if err != nil {
				return err
			}
			raw.Write(lib.RandomBytes(int64(f.UncompressedSize64), 77))
			continue
		}
		if err := zw.Copy(f); err != nil {
			return err
		}
	}
	return zw.Close()
}

// c16SingleFile: the validation target is ONE regular file (container from tlc.WalkAny on the file), cut at a block
// boundary / emptied / intact; fail-fast must not call a cut file valid, and must return.
func c16SingleFile(c lib.Case, s c16Spec, env *lib.Env) lib.Result {
	res := lib.Result{NonTrivial: true}
	r := lib.NewRng(lib.Mix(s.Seed, 161))
	data := lib.RandomBytes(3*lib.BS+int64([]int{0, 0, 777}[r.Intn(3)]), r.Uint64())
	path := filepath.Join(env.Scratch, "game.bin")
	os.WriteFile(path, data, 0o644)
	cont, err := tlc.WalkAny(path, tlc.WalkOpts{})
	if err != nil {
		res.Inconclusive("WalkAny(file): " + err.Error())
		return res
	}
	pool, err := pools.New(cont, path)
	if err != nil {
		res.Inconclusive(err.Error())
		return res
	}
	hashes, err := pwr.ComputeSignature(context.Background(), cont, pool, lib.Quiet())
	pool.Close()
	if err != nil {
		res.Inconclusive("sign: " + err.Error())
		return res
	}
	sig := &pwr.SignatureInfo{Container: cont, Hashes: hashes}
	cut := map[string]int64{"cut-2blocks": 2 * lib.BS, "cut-1block": lib.BS, "cut-0": 0, "cut-mid": lib.BS + 5, "intact": int64(len(data))}[s.Damage]
	os.Truncate(path, cut)
	deviates := cut != int64(len(data))
	desc := fmt.Sprintf("single-file target of %d bytes, now %d bytes (%s), consumer=%s", len(data), cut, s.Damage, s.Consumer)
	vctx := &pwr.ValidatorContext{Consumer: lib.Quiet(), FailFast: s.Consumer == "failfast"}
	if s.Consumer == "wounds-good" {
		vctx.WoundsPath = filepath.Join(env.Scratch, "w.pww")
	}
	var verr error
	var panicked bool
	var stack string
	v := lib.RunWithQuiescence(func() {
		verr, panicked, stack = lib.Guard(func() error { return vctx.Validate(context.Background(), path, sig) })
	}, 25*time.Second)
	res.Add("validations", 1)
	res.Add("single_file_target_validations", 1)
	switch {
	case !v.Returned:
		res.Violate("validate-does-not-return:singlefile/"+s.Damage, desc, v.Report)
	case panicked:
		res.Violate("validate-panic:singlefile", desc, verr.Error(), stack)
	case s.Consumer == "failfast" && verr == nil && deviates:
		res.Violate("failfast-false-valid:singlefile", desc, "fail-fast Validate returned nil for a file that was cut")
	case s.Consumer == "failfast" && verr != nil && !deviates:
		res.Violate("failfast-rejects-valid", desc, verr.Error())
	}
	if s.Consumer == "failfast" && verr == nil {
		res.Add("failfast_nil_verdicts_checked_against_truth", 1)
	}
	res.Feat = []string{fmt.Sprintf("singlefile|%s|%s", s.Damage, s.Consumer)}
	return res
}

func c16Run(c lib.Case, env *lib.Env) lib.Result {
	var s c16Spec
	lib.ReadSpec(c, &s)
	if s.Build == "singlefile" {
		return c16SingleFile(c, s, env)
	}
	res := lib.Result{NonTrivial: true}
	ref := c16Build(s.Build, s.Seed)
	refDir := filepath.Join(env.Scratch, "ref")
	sig, err := signBuild(ref, refDir)
	if err != nil {
		res.Inconclusive("sign: " + err.Error())
		return res
	}
	dir := filepath.Join(env.Scratch, "tree")
	ref.Materialize(dir)
	// --- damage
	files := sig.Container.Files
	dmgFile := func(i int) {
		p := filepath.Join(dir, filepath.FromSlash(files[i].Path))
		b, _ := os.ReadFile(p)
		if len(b) > 0 {
			b[0] ^= 1
		} else if files[i].Size == 0 {
			os.Remove(p) // an empty file can only go missing (or change kind)
			return
		}
		os.WriteFile(p, b, 0o644)
	}
	rmDir := func(i int) { os.RemoveAll(filepath.Join(dir, filepath.FromSlash(sig.Container.Dirs[i].Path))) }
	switch s.Damage {
	case "respell": // the only damage: the symlink now spells its destination differently
		lp := filepath.Join(dir, "lnk")
		os.Remove(lp)
		os.Symlink([]string{"./a.bin", "d/../a.bin", "a.bin/"}[c.ID%3], lp)
	case "fifo": // a file of the build is now a named pipe nobody writes to
		p := filepath.Join(dir, filepath.FromSlash(files[len(files)/2].Path))
		os.Remove(p)
		if err := syscall.Mkfifo(p, 0o644); err != nil {
			res.Inconclusive("mkfifo: " + err.Error())
			return res
		}
	case "short-signature":
		sig = &pwr.SignatureInfo{Container: sig.Container, Hashes: sig.Hashes[:len(sig.Hashes)-1]}
	case "short-signature+all":
		sig = &pwr.SignatureInfo{Container: sig.Container, Hashes: sig.Hashes[:len(sig.Hashes)-1]}
		for i := range files {
			dmgFile(i)
		}
	case "first":
		dmgFile(0)
	case "last":
		dmgFile(len(files) - 1)
	case "all":
		if s.Build == "dirs2500" {
			os.RemoveAll(dir)
			os.MkdirAll(dir, 0o755)
		} else {
			for i := range files {
				dmgFile(i)
			}
		}
	case "n1023", "n1024", "n1025":
		var n int
		fmt.Sscanf(s.Damage, "n%d", &n)
		if s.Build == "dirs2500" {
			// remove leaf directories only (container order lists parents first)
			cnt := 0
			for i := len(sig.Container.Dirs) - 1; i >= 0 && cnt < n; i-- {
				if strings.Count(sig.Container.Dirs[i].Path, "/") == 1 {
					rmDir(i)
					cnt++
				}
			}
		} else {
			for i := 0; i < n && i < len(files); i++ {
				dmgFile(i)
			}
		}
	}
	deviates := true
	if s.Damage != "fifo" { // the tree oracle does not open special files
		got, _ := lib.ReadTree(dir)
		deviates = len(lib.DiffBuilds(got, ref, true)) > 0
	}
	// --- consumer
	vctx := &pwr.ValidatorContext{Consumer: lib.Quiet()}
	zipPath := filepath.Join(env.Scratch, "build.zip")
	switch {
	case s.Consumer == "failfast":
		vctx.FailFast = true
	case s.Consumer == "wounds-good":
		vctx.WoundsPath = filepath.Join(env.Scratch, "w.pww")
	case s.Consumer == "wounds-missingdir":
		vctx.WoundsPath = filepath.Join(env.Scratch, "no", "such", "dir", "w.pww")
	case s.Consumer == "wounds-devfull":
		vctx.WoundsPath = "/dev/full"
	case s.Consumer == "printer":
	case strings.HasPrefix(s.Consumer, "heal"):
		if err := makeArchive(refDir, zipPath); err != nil {
			res.Inconclusive("archive: " + err.Error())
			return res
		}
		switch s.Consumer {
		case "heal-good":
			vctx.HealPath = "archive," + zipPath
		case "heal-missing":
			vctx.HealPath = "archive," + filepath.Join(env.Scratch, "nope.zip")
		default:
			n := map[string]int{"heal-corrupt-1": 1, "heal-corrupt-2": 2, "heal-corrupt-last": -1}[s.Consumer]
			bad := filepath.Join(env.Scratch, "bad.zip")
			if err := corruptZipEntry(zipPath, bad, n); err != nil {
				res.Inconclusive("corrupt archive: " + err.Error())
				return res
			}
			vctx.HealPath = "archive," + bad
		}
	}
	// --- cancellation
	ctx, cancel := context.WithCancel(context.Background())
	defer cancel()
	sc := lib.NewSched(s.Sched, s.SchedSeed)
	again := s.Consumer == "failfast" && s.Cancel != "none" && c.ID%2 == 0
	if again {
		// the first call's consumer goroutine stays parked (bounded) until the second call on the context is under way
		sc.HoldPoint, sc.HoldMax = "val-consumer-returned", 3*time.Second
	}
	switch {
	case s.Cancel == "before":
		cancel()
	case strings.HasPrefix(s.Cancel, "point:"):
		parts := strings.Split(s.Cancel, ":")
		sc.CancelPoint = parts[1]
		fmt.Sscan(parts[2], &sc.CancelN)
		sc.Cancel = cancel
		if s.Sched == "cancel-sleep" {
			sc.CancelSleep = 2 * time.Millisecond
		}
	case strings.HasPrefix(s.Cancel, "progress:"):
		var n int
		fmt.Sscanf(s.Cancel, "progress:%d", &n)
		cnt := 0
		vctx.Consumer = &state.Consumer{OnProgress: func(float64) {
			cnt++
			if cnt == n {
				cancel()
			}
		}}
	}
	prev := runtime.GOMAXPROCS(s.Procs)
	defer runtime.GOMAXPROCS(prev)
	lib.SetHook(sc)
	defer lib.SetHook(nil)
	desc := fmt.Sprintf("build=%s damage=%s consumer=%s cancel=%s sched=%s procs=%d", s.Build, s.Damage, s.Consumer, s.Cancel, s.Sched, s.Procs)
	var verr error
	var panicked bool
	var stack string
	before := runtime.NumGoroutine()
	v := lib.RunWithQuiescence(func() {
		verr, panicked, stack = lib.Guard(func() error { return vctx.Validate(ctx, dir, sig) })
	}, 25*time.Second)
	if !again {
		sc.Finish()
		lib.SetHook(nil)
	} else {
		defer lib.SetHook(nil)
		defer sc.Finish()
	}
	res.Add("validations", 1)
	res.Add("hook_events", int64(len(sc.Events())))
	res.SetAdd("interleaving_signatures", sc.Signature())
	if !v.Returned {
		key := "validate-does-not-return"
		if v.Deadlock {
			key = "validate-deadlock"
		}
		res.Violate(key+":"+s.Consumer+"/"+s.Damage+"/"+cancelClass(s.Cancel), desc, v.Report)
		return res
	}
	if panicked {
		res.Violate("validate-panic:"+s.Consumer, desc, verr.Error(), stack)
		return res
	}
	res.Add("returned", 1)
	if verr != nil {
		res.Add("returned_error", 1)
	}
	if s.Consumer == "failfast" {
		res.Add("failfast_verdicts", 1)
		if verr == nil && strings.HasPrefix(s.Damage, "short-signature") {
			res.Add("short_signature_validations_returning_nil", 1)
		}
		if verr == nil && deviates {
			res.Violate("failfast-false-valid:"+cancelClass(s.Cancel), desc, fmt.Sprintf("fail-fast Validate returned nil on a directory that differs from the signed build (cancelled=%v, ctx.Err=%v)", sc.DidCancel() || s.Cancel == "before", ctx.Err()))
		}
		if verr == nil {
			res.Add("failfast_nil_verdicts_checked_against_truth", 1)
		}
		if s.Cancel == "none" && !deviates && verr != nil && !strings.HasPrefix(s.Damage, "short-signature") {
			res.Violate("failfast-rejects-valid", desc, verr.Error())
		}
	}
	if s.Cancel != "none" && (sc.DidCancel() || s.Cancel == "before" || ctx.Err() != nil) {
		res.Add("runs_actually_cancelled", 1)
		res.SetAdd("cancel_instants_hit", cancelClass(s.Cancel))
	}
	if again {
		// the SAME validator context once more, this time left alone: it must return, and with the true verdict
		var verr2 error
		var p2 bool
		var st2 string
		v2 := lib.RunWithQuiescence(func() {
			verr2, p2, st2 = lib.Guard(func() error { return vctx.Validate(context.Background(), dir, sig) })
		}, 25*time.Second)
		sc.Finish()
		lib.SetHook(nil)
		res.Add("validations_with_a_context_used_before", 1)
		res.Add("first_call_consumer_goroutines_parked_until_the_second_call", int64(sc.Held))
		switch {
		case !v2.Returned:
			res.Violate("validate-does-not-return:reused-context-after-"+cancelClass(s.Cancel), desc, v2.Report)
			return res
		case p2:
			res.Violate("validate-panic:reused-context", desc, verr2.Error(), st2)
		case verr2 == nil && deviates:
			res.Violate("failfast-false-valid:reused-context-after-"+cancelClass(s.Cancel), desc, "second fail-fast Validate with the same context returned nil on a directory that differs from the signed build")
		case verr2 != nil && !deviates:
			res.Violate("failfast-rejects-valid:reused-context-after-"+cancelClass(s.Cancel), desc, verr2.Error())
		}
	}
	// goroutines still alive are reported, not judged (the statement is about the caller not being blocked)
	time.Sleep(2 * time.Millisecond)
	if n := runtime.NumGoroutine() - before; n > 0 {
		left := lib.WharfGoroutineList(lib.AllGoroutines())
		if len(left) > 0 {
			res.Add("runs_with_wharf_goroutines_left_after_return", 1)
			res.SetAdd("leftover_goroutine_sites", left[0].Top)
		}
	}
	res.Feat = []string{fmt.Sprintf("%s|%s|%s|%s|%s|procs=%d", s.Build, s.Damage, s.Consumer, cancelClass(s.Cancel), s.Sched, s.Procs)}
	if c.ID%173 == 0 {
		res.Sample = map[string]interface{}{"build": s.Build, "damage": s.Damage, "consumer": s.Consumer, "cancel": s.Cancel, "schedule": s.Sched, "gomaxprocs": s.Procs, "returnedError": verr != nil, "directoryDeviates": deviates}
	}
	return res
}

func cancelClass(c string) string {
	if strings.HasPrefix(c, "point:") {
		parts := strings.Split(c, ":")
		if parts[1] == "val-main-select" || parts[1] == "val-file-start" {
			if parts[2] == "1" {
				return parts[1] + ":first"
			}
			return parts[1] + ":later"
		}
		return parts[1]
	}
	if strings.HasPrefix(c, "progress:") {
		return "progress-callback"
	}
	return c
}

var _ = io.EOF

func init() {
	lib.Register(&lib.Property{
		ID:          "C16",
		Level:       "fault_enumeration",
		Rule:        "builds of 3 files + a trailing empty file / 300 small files / 1300 small files / 2500 directories / one 96 MiB file (1536 blocks, more than the wounds channel holds) damaged in its first block before a small file, with the consumers that return at the first wound; damage none / first file / last file only / every entry / exactly 1023, 1024, 1025 wound-producing entries (around the 1024-slot wound channel); consumers fail-fast, wounds file (good path, path in a missing directory, /dev/full), printer, healer (good archive, missing archive, archive whose 1st / 2nd / last file entry is corrupted); cancellation before Validate, at the 1st/2nd directory check, after the directory pass, at the main select and at file start for every i (3-file build; every 15th file of the 300-file build in quick, every file in thorough), after the last file was queued, before the wound channel is closed, and from inside Consumer.OnProgress at the 1st/2nd/5th callback; schedules none / seeded perturbation at the verif hooks; GOMAXPROCS 1/16; a failing file worker (signature one hash short) under every consumer kind; after a cancelled fail-fast run the same context validates once more. Oracle: (1) the call returned - decided by a quiescence detector over goroutine dumps, (2) fail-fast err == nil implies the independent tree comparison finds no deviation. distinct = distinct (build, damage, consumer, cancel class, schedule, GOMAXPROCS)",
		Assumptions: []string{"goroutines left alive after return are reported in the evidence, not judged", "an error return on a valid directory is allowed when the run was cancelled"},
		Flavors: func(tier string) []string {
			if tier == "thorough" {
				return []string{"plain", "race"}
			}
			return []string{"plain"}
		},
		Cases:      c16Cases,
		Run:        c16Run,
		Batch:      25,
		CaseBudget: 200 * 1e9,
	})
}
