package props

import (
	"archive/zip"
	"bytes"
	"context"
	"fmt"
	akzip "github.com/itchio/arkive/zip"
	"github.com/itchio/lake/pools/zippool"
	"github.com/itchio/lake/tlc"
	"os"
	"path/filepath"
	"runtime"
	"sort"
	"strings"
	"time"

	"github.com/itchio/wharf/archiver"
	"github.com/itchio/wharf/pwr"
	"verif/lib"
)

// C06 — healing from an archive restores any damaged directory (DESIGN §5 C06).

type c06Spec struct {
	Build     string       `json:"build"`
	Seed      uint64       `json:"seed"`
	Damages   []lib.Damage `json:"damages"`
	Sched     string       `json:"sched"`
	SchedSeed uint64       `json:"schedSeed"`
	Procs     int          `json:"procs"`
	// ZipSigned: the build was signed FROM A ZIP that has file entries only (tlc.WalkZip invents each entry's immediate
	// parent directory and lists directories in no particular order); healing uses the same zip
	ZipSigned bool `json:"zipSigned,omitempty"`
}

func c06Cases(tier string, seed uint64, flavor string) []lib.Case {
	var cases []lib.Case
	nperturb := 4
	nb := 1
	ncombo := 12
	if tier == "thorough" {
		nperturb, nb, ncombo = 16, 10, 150
	}
	if flavor == "race" {
		nperturb, ncombo = 1, 4
	}
	// more directories and symlinks than the 1024-slot wound channel holds: emptied, missing, half missing, valid
	for wi, dm := range [][]lib.Damage{{{Op: "rmall"}}, {{Op: "rmroot"}}, nil, {{Op: "rmtree", Path: "w07"}, {Op: "rmtree", Path: "w21"}}} {
		for si, sc := range []string{"validator-first", "healer-first", "perturb"} {
			if flavor == "race" && si != 2 {
				continue
			}
			s := c06Spec{Build: "wide", Seed: lib.Mix(seed, 606), Damages: dm, Sched: sc, SchedSeed: lib.Mix(seed, 607, uint64(wi), uint64(si)), Procs: []int{1, 4, 16}[(wi+si)%3]}
			cases = append(cases, lib.Case{Kind: "wide/" + sc, Spec: lib.MustSpec(s)})
		}
	}
	// a 9 MiB file: aggregated wounds are flushed every 4 MiB, so the healer starts rewriting the file while the
	// validator is still reading it
	for wi, dm := range [][]lib.Damage{
		{{Op: "flip", Path: "big.bin", N: 0}},
		{{Op: "garble", Path: "big.bin", N: lib.BS, S: fmt.Sprint(4*lib.MB + 3*lib.BS)}},
		{{Op: "garble", Path: "big.bin", N: 0, S: fmt.Sprint(9*lib.MB + 1234)}},
		{{Op: "truncate", Path: "big.bin", N: 5 * lib.MB}},
		{{Op: "extend", Path: "big.bin", N: 2*lib.BS + 3}},
		{{Op: "flip", Path: "big.bin", N: 9 * lib.MB}, {Op: "delete", Path: "small.bin"}},
	} {
		for si, sc := range []string{"validator-first", "healer-first", "perturb", "perturb"} {
			if flavor == "race" && si < 2 {
				continue
			}
			s := c06Spec{Build: "big", Seed: lib.Mix(seed, 608), Damages: dm, Sched: sc, SchedSeed: lib.Mix(seed, 609, uint64(wi), uint64(si)), Procs: []int{1, 4, 16}[(wi+si)%3]}
			cases = append(cases, lib.Case{Kind: "big/" + sc, Spec: lib.MustSpec(s)})
		}
	}
	// a build signed from a zip without directory entries
	if flavor != "race" {
		for di, dm := range [][]lib.Damage{{{Op: "rmroot"}}, {{Op: "rmall"}}, {{Op: "rmtree", Path: "assets"}}, {{Op: "rmtree", Path: "assets/textures"}}, {{Op: "rmtree", Path: "assets/textures/hd"}},
			{{Op: "flip", Path: "assets/textures/hd/a.bin", N: 5}}, {{Op: "delete", Path: "x/y/z/w/deep.bin"}}, nil} {
			for k := 0; k < 3; k++ {
				cases = append(cases, lib.Case{Kind: "zipsigned", Spec: lib.MustSpec(c06Spec{Build: "zipsigned", Seed: lib.Mix(seed, 611, uint64(k)), Damages: dm, Sched: "perturb", SchedSeed: lib.Mix(seed, 612, uint64(di), uint64(k)), Procs: []int{1, 4, 16}[k], ZipSigned: true})})
			}
		}
	}
	for bi := 0; bi < nb; bi++ {
		for _, name := range []string{"nested", "small", "allempty"} {
			if name == "allempty" && bi > 0 {
				continue
			}
			bs := lib.Mix(seed, 6, uint64(bi))
			b := valBuild(name, bs)
			var dmgs [][]lib.Damage
			dmgs = append(dmgs, nil) // already valid
			for _, d := range treeDamages(b) {
				// one representative per (op, path) pair is enough for files: healing always rewrites the whole file
				if d.Op == "flip" && d.N != 0 && d.N != lib.BS {
					continue
				}
				if (d.Op == "truncate" || d.Op == "extend") && d.N > 1 && d.N%lib.BS != 0 {
					continue
				}
				dmgs = append(dmgs, []lib.Damage{d})
			}
			dmgs = append(dmgs, []lib.Damage{{Op: "rmall"}}, []lib.Damage{{Op: "rmroot"}})
			ds := treeDamages(b)
			r := lib.NewRng(lib.Mix(bs, 66))
			for i := 0; i < ncombo; i++ {
				k := r.Range(2, 5)
				used := map[string]bool{}
				var combo []lib.Damage
				for try := 0; len(combo) < k && try < 50; try++ {
					d := ds[r.Intn(len(ds))]
					conflict := false
					for u := range used {
						if u == d.Path || strings.HasPrefix(u, d.Path+"/") || strings.HasPrefix(d.Path, u+"/") {
							conflict = true
						}
					}
					if !conflict {
						used[d.Path] = true
						combo = append(combo, d)
					}
				}
				dmgs = append(dmgs, combo)
			}
			for di, dm := range dmgs {
				scheds := []string{"validator-first", "healer-first"}
				for k := 0; k < nperturb; k++ {
					scheds = append(scheds, "perturb")
				}
				if flavor == "race" && di%3 != 0 {
					continue
				}
				for si, sc := range scheds {
					s := c06Spec{Build: name, Seed: bs, Damages: dm, Sched: sc, SchedSeed: lib.Mix(bs, uint64(di), uint64(si)), Procs: []int{1, 4, 16}[(di+si)%3]}
					cases = append(cases, lib.Case{Kind: sc, Spec: lib.MustSpec(s)})
				}
			}
		}
	}
	return cases
}

// makeArchive zips the reference tree with wharf's own CompressZip.
func makeArchive(refDir, zipPath string) error {
	f, err := os.Create(zipPath)
	if err != nil {
		return err
	}
	defer f.Close()
	_, err = archiver.CompressZip(f, refDir, lib.Quiet())
	return err
}

func damageClasses(ds []lib.Damage) string {
	var cl []string
	for _, d := range ds {
		c := d.Op
		if d.Op == "tosymlink" && d.S != "nowhere" {
			c = "tosymlink-existing"
		}
		cl = append(cl, c)
	}
	sort.Strings(cl)
	return strings.Join(cl, "+")
}

// c06ZipSigned: sign from a zip made with the standard library (file entries only, nested several levels), damage a
// directory holding the same files, heal from that zip.
func c06ZipSigned(c lib.Case, s c06Spec, env *lib.Env) lib.Result {
	res := lib.Result{NonTrivial: len(s.Damages) > 0}
	r := lib.NewRng(lib.Mix(s.Seed, 66))
	ref := lib.NewBuild()
	for _, p := range []string{"top.bin", "assets/b.bin", "assets/textures/hd/a.bin", "assets/textures/hd/c.bin", "assets/textures/lo/d.bin", "x/y/z/w/deep.bin", "x/empty.bin"} {
		n := int64(r.Range(1, 2*lib.BS))
		if strings.HasSuffix(p, "empty.bin") {
			n = 0
		}
		ref.PutFile(p, lib.RandomBytes(n, r.Uint64()))
	}
	zipPath := filepath.Join(env.Scratch, "signed-from.zip")
	zf, err := os.Create(zipPath)
	if err != nil {
		res.Inconclusive(err.Error())
		return res
	}
	zw := zip.NewWriter(zf)
	files := ref.Files()
	r.Shuffle(len(files), func(i, j int) { files[i], files[j] = files[j], files[i] })
	for _, e := range files {
		w, err := zw.Create(e.Path) // no entries for directories
		if err == nil {
			_, err = w.Write(e.Data)
		}
		if err != nil {
			res.Inconclusive(err.Error())
			return res
		}
	}
	zw.Close()
	zf.Close()
	zbytes, err := os.ReadFile(zipPath)
	if err != nil {
		res.Inconclusive(err.Error())
		return res
	}
	zr, err := akzip.NewReader(bytes.NewReader(zbytes), int64(len(zbytes)))
	if err != nil {
		res.Inconclusive(err.Error())
		return res
	}
	cont, err := tlc.WalkZip(zr, tlc.WalkOpts{})
	if err != nil {
		res.Inconclusive("WalkZip: " + err.Error())
		return res
	}
	hashes, err := pwr.ComputeSignature(context.Background(), cont, zippool.New(cont, zr), lib.Quiet())
	if err != nil {
		res.Inconclusive("sign from zip: " + err.Error())
		return res
	}
	sig := &pwr.SignatureInfo{Container: cont, Hashes: hashes}
	dir := filepath.Join(env.Scratch, "tree")
	ref.Materialize(dir)
	for _, d := range s.Damages {
		if err := lib.ApplyDamage(dir, d); err != nil {
			res.Inconclusive("damage " + d.String() + ": " + err.Error())
			return res
		}
	}
	classes := damageClasses(s.Damages)
	desc := fmt.Sprintf("build signed from a zip without directory entries (%d dirs listed by WalkZip) damages=%v procs=%d", len(cont.Dirs), s.Damages, s.Procs)
	prev := runtime.GOMAXPROCS(s.Procs)
	defer runtime.GOMAXPROCS(prev)
	sc := lib.NewSched(s.Sched, s.SchedSeed)
	lib.SetHook(sc)
	defer lib.SetHook(nil)
	defer sc.Finish()
	vctx := &pwr.ValidatorContext{HealPath: "archive," + zipPath, Consumer: lib.Quiet()}
	var verr error
	var panicked bool
	var stack string
	v := lib.RunWithQuiescence(func() {
		verr, panicked, stack = lib.Guard(func() error { return vctx.Validate(context.Background(), dir, sig) })
	}, 30*time.Second)
	res.Add("heals", 1)
	res.Add("heals_of_a_build_signed_from_a_zip", 1)
	switch {
	case !v.Returned:
		res.Violate("heal-does-not-return:zipsigned:"+classes, desc, v.Report)
		return res
	case panicked:
		res.Violate("heal-panic:zipsigned:"+classes, desc, verr.Error(), stack)
		return res
	case verr != nil:
		res.Violate("heal-returns-error:zipsigned:"+classes, desc, verr.Error())
		return res
	}
	got, rerr := lib.ReadTree(dir)
	if rerr != nil {
		res.Inconclusive(rerr.Error())
		return res
	}
	var bad []string
	for _, e := range ref.Files() {
		g := got.E[e.Path]
		if g == nil || g.Kind != lib.KFile || !bytes.Equal(g.Data, e.Data) {
			bad = append(bad, e.Path)
		}
	}
	if len(bad) > 0 {
		res.Violate("not-restored:zipsigned:"+classes, desc, "files missing or different after healing: "+strings.Join(bad, ", "))
	} else if aerr := pwr.AssertValid(dir, sig); aerr != nil {
		res.Violate("assertvalid-fails-after-heal:zipsigned:"+classes, desc, aerr.Error())
	}
	res.Feat = []string{fmt.Sprintf("zipsigned|%s|procs=%d", classes, s.Procs)}
	res.SetAdd("damage_classes", classes)
	return res
}

func c06Run(c lib.Case, env *lib.Env) lib.Result {
	var s c06Spec
	lib.ReadSpec(c, &s)
	if s.ZipSigned {
		return c06ZipSigned(c, s, env)
	}
	res := lib.Result{NonTrivial: len(s.Damages) > 0}
	ref := valBuild(s.Build, s.Seed)
	refDir := filepath.Join(env.Scratch, "ref")
	sig, err := signBuild(ref, refDir)
	if err != nil {
		res.Inconclusive("sign: " + err.Error())
		return res
	}
	zipPath := filepath.Join(env.Scratch, "build.zip")
	if err := makeArchive(refDir, zipPath); err != nil {
		res.Inconclusive("archive: " + err.Error())
		return res
	}
	dir := filepath.Join(env.Scratch, "tree")
	ref.Materialize(dir)
	dirIdx := map[string]int{}
	for i, d := range sig.Container.Dirs {
		dirIdx[d.Path] = i
	}
	for _, d := range s.Damages {
		if err := lib.ApplyDamage(dir, d); err != nil {
			res.Inconclusive("damage " + d.String() + ": " + err.Error())
			return res
		}
	}
	classes := damageClasses(s.Damages)
	desc := fmt.Sprintf("build=%s damages=%v sched=%s procs=%d schedSeed=%d", s.Build, s.Damages, s.Sched, s.Procs, s.SchedSeed)
	var before map[string]lib.StatEntry
	if len(s.Damages) == 0 {
		before, _ = lib.TreeStat(dir)
	}
	prev := runtime.GOMAXPROCS(s.Procs)
	defer runtime.GOMAXPROCS(prev)
	sc := lib.NewSched(s.Sched, s.SchedSeed)
	secondHeal := len(s.Damages) > 0 && c.ID%3 == 0
	if secondHeal {
		// the goroutine that ran the first call's wound consumer is kept parked (bounded) until the second call on the
		// same context is under way
		sc.HoldPoint, sc.HoldMax = "val-consumer-returned", 3*time.Second
	}
	lib.SetHook(sc)
	defer lib.SetHook(nil)
	defer sc.Finish()
	vctx := &pwr.ValidatorContext{HealPath: "archive," + zipPath, Consumer: lib.Quiet()}
	var verr error
	var panicked bool
	var stack string
	v := lib.RunWithQuiescence(func() {
		verr, panicked, stack = lib.Guard(func() error { return vctx.Validate(context.Background(), dir, sig) })
	}, 30*time.Second)
	if !secondHeal {
		sc.Finish()
		lib.SetHook(nil)
	}
	res.Add("heals", 1)
	events := sc.Events()
	res.Add("hook_events", int64(len(events)))
	res.SetAdd("interleaving_signatures", sc.Signature())
	if !v.Returned {
		key := "heal-does-not-return"
		if v.Deadlock {
			key = "heal-deadlock"
		}
		res.Violate(key+":"+classes, desc, v.Report)
		return res
	}
	if panicked {
		res.Violate("heal-panic:"+classes, desc, verr.Error(), stack)
		return res
	}
	// schedule-dimension bookkeeping for subtree-hiding damage: was a hidden child checked before or after its parent was healed?
	for _, d := range s.Damages {
		if di, ok := dirIdx[d.Path]; ok && (d.Op == "tofile" || d.Op == "tosymlink" || d.Op == "rmtree") {
			healed := lib.IndexOf(events, fmt.Sprintf("heal-wound-done:%d:%d", int(pwr.WoundKind_DIR), di))
			child := -1
			for i, f := range sig.Container.Files {
				if strings.HasPrefix(f.Path, d.Path+"/") {
					child = lib.IndexOf(events, fmt.Sprintf("val-file-start:%d:0", i))
					break
				}
			}
			if healed >= 0 && child >= 0 {
				cl := damageClasses([]lib.Damage{d})
				if child < healed {
					res.SetAdd("child-checked-BEFORE-parent-healed", cl)
					res.Add("runs_child_before_parent_healed", 1)
				} else {
					res.SetAdd("child-checked-AFTER-parent-healed", cl)
					res.Add("runs_child_after_parent_healed", 1)
				}
			}
		}
	}
	if verr != nil {
		res.Violate("heal-returns-error:"+classes, desc, verr.Error())
		return res
	}
	got, rerr := lib.ReadTree(dir)
	if rerr != nil {
		res.Inconclusive(rerr.Error())
		return res
	}
	if ds := lib.DiffBuilds(got, ref, true); len(ds) > 0 { // extra files are allowed, signed entries must be exact
		res.Violate("not-restored:"+classes+":"+s.Sched, append([]string{desc}, lib.DiffStrings(ds, 6)...)...)
	} else if aerr := pwr.AssertValid(dir, sig); aerr != nil {
		res.Violate("assertvalid-fails-after-heal:"+classes, desc, aerr.Error())
	}
	// the SAME validator context heals once more: the same directory damaged again, or another damaged copy
	if secondHeal {
		dir2, where := dir, "same directory damaged again"
		if c.ID%6 == 3 {
			dir2, where = filepath.Join(env.Scratch, "tree2"), "another damaged copy"
			ref.Materialize(dir2)
		}
		okDamage := true
		for _, d := range s.Damages {
			if err := lib.ApplyDamage(dir2, d); err != nil {
				okDamage = false
			}
		}
		if okDamage {
			var verr2 error
			var p2 bool
			var st2 string
			v2 := lib.RunWithQuiescence(func() {
				verr2, p2, st2 = lib.Guard(func() error { return vctx.Validate(context.Background(), dir2, sig) })
			}, 30*time.Second)
			sc.Finish()
			lib.SetHook(nil)
			res.Add("heals_with_a_context_that_healed_before", 1)
			res.Add("first_call_consumer_goroutines_parked_until_the_second_call", int64(sc.Held))
			switch {
			case !v2.Returned:
				res.Violate("heal-does-not-return:reused-context:"+classes, desc, where, v2.Report)
				return res
			case p2:
				res.Violate("heal-panic:reused-context:"+classes, desc, where, verr2.Error(), st2)
			case verr2 != nil:
				res.Violate("heal-returns-error:reused-context:"+classes, desc, where, verr2.Error())
			default:
				got2, _ := lib.ReadTree(dir2)
				if ds := lib.DiffBuilds(got2, ref, true); len(ds) > 0 {
					res.Violate("not-restored:reused-context:"+classes, append([]string{desc, where}, lib.DiffStrings(ds, 6)...)...)
				} else if aerr := pwr.AssertValid(dir2, sig); aerr != nil {
					res.Violate("assertvalid-fails-after-heal:reused-context:"+classes, desc, where, aerr.Error())
				}
			}
		}
	}
	if before != nil {
		after, _ := lib.TreeStat(dir)
		if df := lib.DiffStat(before, after); len(df) > 0 {
			res.Violate("valid-directory-modified", append([]string{desc}, df...)...)
		}
		res.Add("valid_directories_checked_untouched", 1)
	}
	res.Feat = []string{fmt.Sprintf("%s|%s|%s|procs=%d", s.Build, classes, s.Sched, s.Procs)}
	res.SetAdd("damage_classes", classes)
	if c.ID%131 == 0 {
		res.Sample = map[string]interface{}{"build": s.Build, "damages": s.Damages, "schedule": s.Sched, "gomaxprocs": s.Procs, "hookEvents": len(events), "firstEvents": headStr(events, 12)}
	}
	return res
}

var _ = bytes.Equal

func init() {
	lib.Register(&lib.Property{
		ID:          "C06",
		Level:       "fault_enumeration",
		Rule:        "reference builds (nested dirs, symlinks incl. dangling and to a directory, empty files/dirs; small build with block-boundary sizes); damage = nothing (valid directory), every single damage of the C05 list (one representative per file/boundary class), subtree-hiding kind swaps (directory -> file, -> dangling symlink, -> symlink to a sibling with equal child names, -> symlink to another existing directory, file/symlink -> non-empty directory), directory emptied / removed, whole tree emptied / missing, random combinations of 2-5; each damaged tree is healed by Validate+HealPath from a zip made by wharf's CompressZip under schedules validator-first, healer-first (forced at the verif hooks, bounded waits) and seeded perturbation with GOMAXPROCS 1/4/16. Oracle: returned (quiescence detector), no error, every signed entry exact (independent tree comparison, extra files allowed), AssertValid nil; valid directory: inode/mtime/size/checksum unchanged. In every third damaged case the same validator context then heals a second time (the same directory damaged again / another damaged copy) under the same oracle. Symlink destinations include non-normal spellings. A build signed FROM A ZIP with file entries only (tlc.WalkZip lists invented parent directories in no particular order) is healed from that zip after removing nested directories / everything. distinct = distinct (build, damage classes, schedule, GOMAXPROCS)",
		Assumptions: []string{"schedule space is sampled: two forced orders + seeded perturbation; the evidence counts runs in which a hidden child was checked before / after its parent was healed", "extra (unsigned) files may remain"},
		Flavors: func(tier string) []string {
			if tier == "thorough" {
				return []string{"plain", "race"}
			}
			return []string{"plain"}
		},
		Cases:      c06Cases,
		Run:        c06Run,
		Batch:      20,
		CaseBudget: 300 * 1e9,
		Post: func(rs []lib.Result, ev *lib.Evidence) []string {
			sets, _ := ev.Coverage["observed_sets"].(map[string]int)
			var out []string
			if sets["distinct:child-checked-BEFORE-parent-healed"] == 0 || sets["distinct:child-checked-AFTER-parent-healed"] == 0 {
				out = append(out, fmt.Sprintf("schedule dimension not explored: hidden child checked before parent healed in %d classes, after in %d",
					sets["distinct:child-checked-BEFORE-parent-healed"], sets["distinct:child-checked-AFTER-parent-healed"]))
			}
			return out
		},
	})
}
