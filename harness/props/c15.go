package props

import (
	"bytes"
	"crypto/sha256"
	"fmt"
	"github.com/itchio/wharf/pwr"
	"io"
	"path/filepath"
	"runtime"
	"strings"
	"sync"
	"time"

	"github.com/itchio/lake"
	"github.com/itchio/wharf/bsdiff"
	"verif/lib"
)

// C15 — diffing is deterministic and free of data races (DESIGN §5 C15).

type c15Spec struct {
	PairSeed uint64   `json:"pairSeed"`
	Shape    string   `json:"shape"` // generic | shares | tiny | edges
	Comp     lib.Comp `json:"comp"`
	Runs     int      `json:"runs"`
}

func c15Pair(seed uint64, shape string) *lib.Pair {
	r := lib.NewRng(lib.Mix(seed, 1515))
	switch shape {
	case "shares":
		// files made of equal shares of several differently named old files: ties in the optimizer's mapping choice
		p := &lib.Pair{Old: lib.NewBuild(), New: lib.NewBuild(), Feat: map[string]bool{}}
		n := r.Range(2, 4)
		var olds [][]byte
		for i := 0; i < n; i++ {
			d := lib.RandomBytes(int64(r.Range(2, 4))*lib.BS, r.Uint64())
			olds = append(olds, d)
			p.Old.PutFile(fmt.Sprintf("src%d.bin", i), d)
		}
		k := 2
		var nd []byte
		for _, d := range olds {
			nd = append(nd, d[:k*lib.BS]...)
		}
		p.New.PutFile("mixed.bin", nd)
		p.New.PutFile("mixed2.bin", append(append([]byte(nil), olds[n-1][:lib.BS]...), olds[0][:lib.BS]...))
		p.New.PutFile("src0.bin", olds[0])
		// an exact tie between the SAME-PATH old file and another old file with a lower container index
		last := fmt.Sprintf("src%d.bin", n-1)
		p.New.PutFile(last, append(append([]byte(nil), olds[0][:lib.BS]...), olds[n-1][:lib.BS]...))
		p.Feat["equal-shares"] = true
		return p
	case "samebase":
		// many old files with the SAME base name in different directories holding the same blocks, and new files with
		// that base name at paths the old build does not have: whichever old file a block range names must not depend
		// on the iteration order of any map
		p := &lib.Pair{Old: lib.NewBuild(), New: lib.NewBuild(), Feat: map[string]bool{}}
		d := lib.RandomBytes(int64(r.Range(2, 4))*lib.BS+int64(r.Intn(3000)), r.Uint64())
		for i := 0; i < 16; i++ {
			dd := append([]byte(nil), d...)
			dd[len(dd)-1-i] ^= 0x01 // the last block differs per copy, the others are shared
			p.Old.PutFile(fmt.Sprintf("dir%02d/lib.bin", i), dd)
		}
		p.New.PutFile("moved/lib.bin", d)
		p.New.PutFile("other/place/lib.bin", append(append([]byte(nil), d...), lib.RandomBytes(100, r.Uint64())...))
		p.New.PutFile("dir03/lib.bin", p.Old.E["dir03/lib.bin"].Data)
		p.Feat["same-base-name-in-many-dirs"] = true
		return p
	case "fragmented":
		// heavily fragmented similarity: the new file is the old one cut into small pieces and shuffled, so every
		// scanner block yields far more matches than a worker's result channel holds (256)
		p := &lib.Pair{Old: lib.NewBuild(), New: lib.NewBuild(), Feat: map[string]bool{}}
		o := lib.RandomBytes(int64(r.Range(5, 12))*lib.BS, r.Uint64())
		piece := r.PickInt([]int{96, 192, 300})
		var pieces [][]byte
		for off := 0; off < len(o); off += piece {
			e := off + piece
			if e > len(o) {
				e = len(o)
			}
			pieces = append(pieces, o[off:e])
		}
		r.Shuffle(len(pieces), func(i, j int) { pieces[i], pieces[j] = pieces[j], pieces[i] })
		var nd []byte
		for _, pc := range pieces {
			nd = append(nd, pc...)
		}
		p.Old.PutFile("frag.bin", o)
		p.New.PutFile("frag.bin", nd)
		p.Feat["fragmented-similarity"] = true
		return p
	case "bigfresh":
		// a run of unmatched data that spans the differ's 4 MiB + 2 block working buffer: where DATA ops are
		// cut must not depend on how the source slices its reads
		p := &lib.Pair{Old: lib.NewBuild(), New: lib.NewBuild(), Feat: map[string]bool{}}
		o := lib.RandomBytes(int64(r.Range(3, 9))*lib.BS+int64(r.Intn(lib.BS)), r.Uint64())
		p.Old.PutFile("big.bin", o)
		nd := append([]byte(nil), o[:2*lib.BS]...)
		nd = append(nd, lib.RandomBytes(int64(r.Range(4*lib.MB+lib.BS, 5*lib.MB+300000)), r.Uint64())...)
		nd = append(nd, o[2*lib.BS:]...)
		p.New.PutFile("big.bin", nd)
		p.Feat["fresh-run-across-buffer-wrap"] = true
		return p
	case "hugeold":
		// an old build of more than 2048 blocks in which a few distinct blocks recur in every part of the file: the
		// differ has several equally good origins for each block of the new file and must always pick the same one
		p := &lib.Pair{Old: lib.NewBuild(), New: lib.NewBuild(), Feat: map[string]bool{}}
		var blocks [][]byte
		for i := 0; i < 7; i++ {
			blocks = append(blocks, lib.RandomBytes(lib.BS, r.Uint64()))
		}
		const nb = 2240
		od := make([]byte, 0, nb*lib.BS+100)
		for i := 0; i < nb; i++ {
			k := (i*5 + i/97) % (len(blocks) + 3)
			if k < len(blocks) {
				od = append(od, blocks[k]...)
			} else {
				od = append(od, lib.RandomBytes(lib.BS, r.Uint64())...)
			}
		}
		od = append(od, lib.RandomBytes(100, r.Uint64())...)
		p.Old.PutFile("huge.bin", od)
		var nd []byte
		for _, k := range []int{3, 0, 6, 1, 1, 5, 2, 4} {
			nd = append(nd, blocks[k]...)
		}
		nd = append(nd, lib.RandomBytes(777, r.Uint64())...)
		for _, k := range []int{2, 3, 4, 5} {
			nd = append(nd, blocks[k]...)
		}
		p.New.PutFile("huge.bin", nd)
		p.New.PutFile("other.bin", append(append([]byte(nil), blocks[6]...), blocks[0]...))
		p.Feat["recurring-blocks-in-an-old-build-of-more-than-2048-blocks"] = true
		return p
	case "tiny":
		return lib.GenPair(seed, lib.GenOpts{ManyTiny: true, MaxFile: 3000, MinFiles: 1, MaxFiles: 2})
	case "edges":
		p := &lib.Pair{Old: lib.NewBuild(), New: lib.NewBuild(), Feat: map[string]bool{}}
		for i, sz := range []int64{0, 1, 16*lib.KB - 1, 16 * lib.KB, 16*lib.KB + 1, lib.BS, 2*lib.BS + 1} {
			d := lib.RandomBytes(sz, r.Uint64())
			p.Old.PutFile(fmt.Sprintf("e%d.bin", i), d)
			nd := append([]byte(nil), d...)
			if len(nd) > 2 {
				nd[len(nd)/2] ^= 1
			}
			p.New.PutFile(fmt.Sprintf("e%d.bin", i), nd)
		}
		p.Feat["pipe-slice-edges"] = true
		return p
	}
	return lib.GenPair(seed, lib.GenOpts{MaxFile: 5 * lib.BS, MinFiles: 2, MaxFiles: 6})
}

func c15Cases(tier string, seed uint64, flavor string) []lib.Case {
	n, runs := 40, 6
	if tier == "thorough" {
		n, runs = 400, 16
	}
	if flavor == "race" {
		n, runs = 12, 4
		if tier == "thorough" {
			n, runs = 100, 8
		}
	}
	comps := []lib.Comp{{Algo: "none"}, {Algo: "gzip", Quality: 1}, {Algo: "brotli", Quality: 1}, {Algo: "none"}}
	shapes := []string{"generic", "shares", "tiny", "edges", "bigfresh", "shares", "fragmented", "samebase"}
	var cases []lib.Case
	for i := 0; i < n; i++ {
		s := c15Spec{PairSeed: lib.Mix(seed, 15, uint64(i)), Shape: shapes[i%len(shapes)], Comp: comps[i%len(comps)], Runs: runs}
		cases = append(cases, lib.Case{Seed: s.PairSeed, Kind: s.Shape, Spec: lib.MustSpec(s)})
	}
	if flavor != "race" {
		// one 140 MiB old build (diff runs only: no decoy, no concurrent twin, no optimizer)
		nh := 1
		if tier == "thorough" {
			nh = 3
		}
		for i := 0; i < nh; i++ {
			s := c15Spec{PairSeed: lib.Mix(seed, 1599, uint64(i)), Shape: "hugeold", Comp: comps[i%len(comps)], Runs: runs}
			cases = append(cases, lib.Case{Seed: s.PairSeed, Kind: s.Shape, Spec: lib.MustSpec(s)})
		}
	}
	return cases
}

// yieldWriter is a sink that perturbs the goroutine writing to it.
type yieldWriter struct {
	mu  sync.Mutex
	buf bytes.Buffer
	rng *lib.Rng
}

func (w *yieldWriter) Write(p []byte) (int, error) {
	w.mu.Lock()
	act := w.rng.Intn(16)
	w.buf.Write(p)
	w.mu.Unlock()
	switch act {
	case 0, 1:
		runtime.Gosched()
	case 2:
		time.Sleep(50 * time.Microsecond)
	case 3:
		t := time.Now()
		for time.Since(t) < 15*time.Microsecond {
		}
	}
	return len(p), nil
}

func sha(b []byte) string { return fmt.Sprintf("%x", sha256.Sum256(b))[:16] }

func c15Run(c lib.Case, env *lib.Env) lib.Result {
	var s c15Spec
	lib.ReadSpec(c, &s)
	res := lib.Result{NonTrivial: true}
	pair := c15Pair(s.PairSeed, s.Shape)
	oldDir, newDir := filepath.Join(env.Scratch, "old"), filepath.Join(env.Scratch, "new")
	pair.Old.Materialize(oldDir)
	pair.New.Materialize(newDir)
	desc := fmt.Sprintf("pairSeed=%d shape=%s comp=%s", s.PairSeed, s.Shape, s.Comp)
	procsList := []int{1, 2, 4, 16}
	var firstPatch, firstSig []byte
	var patchSums, sigSums []string
	prev := runtime.GOMAXPROCS(0)
	defer runtime.GOMAXPROCS(prev)
	diffRuns := s.Runs
	if s.Shape == "bigfresh" && env.Flavor != "plain" {
		diffRuns = 2
	}
	for run := 0; run < diffRuns; run++ {
		runtime.GOMAXPROCS(procsList[run%len(procsList)])
		cs := lib.Mix(s.PairSeed, 151, uint64(run))
		pw := &yieldWriter{rng: lib.NewRng(lib.Mix(cs, 1))}
		sw := &yieldWriter{rng: lib.NewRng(lib.Mix(cs, 2))}
		var sp *lib.ShortReadPool
		var err error
		if run == 1 && s.Shape != "bigfresh" && s.Shape != "hugeold" {
			// this run's DiffContext object has diffed before: against a decoy old build with the same paths, sizes and
			// block counts but other content
			decoy := lib.NewBuild()
			for _, e := range pair.Old.Sorted() {
				switch e.Kind {
				case lib.KFile:
					d := append([]byte(nil), e.Data...)
					for i := range d {
						d[i] ^= 0x5c
					}
					decoy.PutFile(e.Path, d)
				case lib.KDir:
					decoy.PutDir(e.Path)
				case lib.KSymlink:
					decoy.PutSymlink(e.Path, e.Dest)
				}
			}
			decoyDir := filepath.Join(env.Scratch, "decoy-old")
			decoy.Materialize(decoyDir)
			lib.ReuseDiffCtx = &pwr.DiffContext{}
			if _, derr := lib.DiffDirs(decoyDir, newDir, s.Comp, nil, io.Discard, io.Discard); derr != nil {
				lib.ReuseDiffCtx = nil
			} else {
				res.Add("diff_runs_on_a_context_that_diffed_before", 1)
			}
		}
		hv := lib.RunWithQuiescence(func() {
			defer func() { lib.ReuseDiffCtx = nil }()
			_, err = lib.DiffDirs(oldDir, newDir, s.Comp, func(p lake.Pool) lake.Pool {
				sp = &lib.ShortReadPool{Inner: p, Rng: lib.NewRng(lib.Mix(cs, 3)), Yield: run > 0, EOFWithData: run%3 == 2}
				return sp
			}, pw, sw)
		}, 90*time.Second)
		if !hv.Returned {
			// no output at all under this CPU count / schedule
			key := "diff-does-not-return"
			if hv.Deadlock {
				key = "diff-deadlock"
			}
			res.Violate(key, desc, fmt.Sprintf("run %d, GOMAXPROCS %d", run, procsList[run%len(procsList)]), hv.Report)
			return res
		}
		if err != nil {
			res.Violate("diff-error", desc, err.Error())
			return res
		}
		res.Add("diff_runs", 1)
		res.Add("source_reads_sliced", sp.Reads)
		res.SetAdd("gomaxprocs", fmt.Sprint(procsList[run%len(procsList)]))
		res.SetAdd("read_slicing_patterns", fmt.Sprintf("%x", cs))
		patchSums = append(patchSums, sha(pw.buf.Bytes()))
		sigSums = append(sigSums, sha(sw.buf.Bytes()))
		if run == 0 {
			firstPatch, firstSig = append([]byte(nil), pw.buf.Bytes()...), append([]byte(nil), sw.buf.Bytes()...)
			continue
		}
		if !bytes.Equal(pw.buf.Bytes(), firstPatch) {
			res.Violate("patch-bytes-differ-between-runs", desc, fmt.Sprintf("run 0 vs run %d (GOMAXPROCS %d): %d vs %d bytes, first diff at %d; sums %v", run, procsList[run%len(procsList)], len(firstPatch), pw.buf.Len(), firstDiffAt(firstPatch, pw.buf.Bytes()), patchSums))
			break
		}
		if !bytes.Equal(sw.buf.Bytes(), firstSig) {
			res.Violate("signature-bytes-differ-between-runs", desc, fmt.Sprintf("run 0 vs run %d: first diff at %d; sums %v", run, firstDiffAt(firstSig, sw.buf.Bytes()), sigSums))
			break
		}
	}
	// two independent diffs running at the same time in this process (different pairs, pools and sinks) must not
	// influence each other: same bytes as when they run alone
	if firstPatch != nil && s.Shape != "bigfresh" && s.Shape != "hugeold" {
		other := c15Pair(lib.Mix(s.PairSeed, 77), "generic")
		o2, n2 := filepath.Join(env.Scratch, "old2"), filepath.Join(env.Scratch, "new2")
		other.Old.Materialize(o2)
		other.New.Materialize(n2)
		var refP, refS bytes.Buffer
		if _, err := lib.DiffDirs(o2, n2, s.Comp, nil, &refP, &refS); err == nil {
			type out struct{ p, s *yieldWriter }
			outs := []out{{&yieldWriter{rng: lib.NewRng(1)}, &yieldWriter{rng: lib.NewRng(2)}}, {&yieldWriter{rng: lib.NewRng(3)}, &yieldWriter{rng: lib.NewRng(4)}}}
			runtime.GOMAXPROCS(4)
			var wg sync.WaitGroup
			errs := make([]error, 2)
			hv := lib.RunWithQuiescence(func() {
				for k, dirs := range [][2]string{{oldDir, newDir}, {o2, n2}} {
					wg.Add(1)
					go func(k int, od, nd string) {
						defer wg.Done()
						_, errs[k] = lib.DiffDirs(od, nd, s.Comp, func(p lake.Pool) lake.Pool {
							return &lib.ShortReadPool{Inner: p, Rng: lib.NewRng(lib.Mix(s.PairSeed, 153, uint64(k))), Yield: true}
						}, outs[k].p, outs[k].s)
					}(k, dirs[0], dirs[1])
				}
				wg.Wait()
			}, 120*time.Second)
			if !hv.Returned {
				res.Violate("concurrent-diffs-do-not-return", desc, hv.Report)
				return res
			}
			res.Add("concurrent_diff_pairs", 1)
			if errs[0] != nil || errs[1] != nil {
				res.Violate("concurrent-diff-error", desc, fmt.Sprint(errs))
			} else {
				if !bytes.Equal(outs[0].p.buf.Bytes(), firstPatch) || !bytes.Equal(outs[1].p.buf.Bytes(), refP.Bytes()) {
					res.Violate("patch-bytes-differ-when-diffs-run-concurrently", desc, "a diff running next to another one wrote different patch bytes than when running alone")
				}
				if !bytes.Equal(outs[0].s.buf.Bytes(), firstSig) || !bytes.Equal(outs[1].s.buf.Bytes(), refS.Bytes()) {
					res.Violate("signature-bytes-differ-when-diffs-run-concurrently", desc, "a diff running next to another one wrote different signature bytes than when running alone")
				}
			}
		}
	}
	// optimizer determinism for fixed parameters (bsdiff hooks perturb workers, dispatcher and collector)
	if firstPatch != nil && s.Shape != "bigfresh" && s.Shape != "hugeold" {
		for _, op := range []lib.OptParams{{Partitions: 2}, {Partitions: 5, ForceMapAll: true}, {Partitions: 0, SSC: 4}, {Partitions: 0, SSC: -1}} {
			op.Comp = &lib.Comp{Algo: "none"}
			var first []byte
			var sums []string
			shared := &lib.OptPools{} // runs 1, 2, 4, 5, ... share pools that earlier runs have used
			optRuns := s.Runs
			if op.SSC < 0 {
				optRuns = 4 // one run per CPU count
			}
			if s.Shape == "shares" && env.Flavor == "plain" {
				optRuns = 4 * s.Runs // map-order ties show up in a fraction of the runs only
			}
			defer func() {
				if shared.Target != nil {
					shared.Target.Close()
					shared.Source.Close()
				}
			}()
			for run := 0; run < optRuns; run++ {
				runtime.GOMAXPROCS(procsList[run%len(procsList)])
				sc := lib.NewSched("perturb", lib.Mix(s.PairSeed, 152, uint64(run)))
				if run%2 == 1 {
					lib.SetHook(sc)
				}
				var ob bytes.Buffer
				op.Stats = nil
				if run%2 == 0 {
					op.Stats = &bsdiff.DiffStats{} // statistics collection on: shared between the scanner's goroutines
				}
				var err error
				hv := lib.RunWithQuiescence(func() {
					if run%3 == 0 {
						err = lib.Optimize(firstPatch, oldDir, newDir, op, &ob)
					} else {
						err = lib.OptimizeWith(firstPatch, oldDir, newDir, op, &ob, shared)
					}
				}, 120*time.Second)
				lib.SetHook(nil)
				if !hv.Returned {
					key := "optimizer-does-not-return"
					if hv.Deadlock {
						key = "optimizer-deadlock"
					}
					res.Violate(key, desc, fmt.Sprintf("params=%+v run %d, GOMAXPROCS %d", op, run, procsList[run%len(procsList)]), hv.Report)
					return res
				}
				if err != nil {
					res.Violate("optimizer-error", desc, err.Error())
					break
				}
				res.Add("optimize_runs", 1)
				if op.Stats != nil {
					if want, ok := c15BiggestAdd(ob.Bytes()); ok && op.Stats.BiggestAdd != want {
						res.Violate("bsdiff-stats-wrong", desc, fmt.Sprintf("params=%+v: DiffStats.BiggestAdd = %d, largest add in the optimized patch = %d", op, op.Stats.BiggestAdd, want))
					}
					res.Add("optimize_runs_with_stats", 1)
				}
				res.Add("bsdiff_hook_events", int64(len(sc.Events())))
				if len(sc.Events()) > 0 {
					res.SetAdd("bsdiff_interleaving_signatures", sc.Signature())
				}
				sums = append(sums, sha(ob.Bytes()))
				if run == 0 {
					first = append([]byte(nil), ob.Bytes()...)
					continue
				}
				if !bytes.Equal(ob.Bytes(), first) {
					key := "optimizer-output-differs-between-runs"
					if d := c15MappingDiff(first, ob.Bytes()); d != "" {
						key += ":mapping"
						res.Violate(key, desc, fmt.Sprintf("params=%+v run 0 vs run %d: %s; sums %v", op, run, d, sums))
					} else {
						res.Violate(key, desc, fmt.Sprintf("params=%+v run 0 vs run %d: first diff at %d; sums %v", op, run, firstDiffAt(first, ob.Bytes()), sums))
					}
					break
				}
			}
		}
	}
	res.Feat = []string{fmt.Sprintf("%s|%s|%d", s.Shape, s.Comp, s.PairSeed%100000)}
	if c.ID < 4 {
		res.Sample = map[string]interface{}{"pairSeed": s.PairSeed, "shape": s.Shape, "comp": s.Comp.String(), "runs": s.Runs, "patchSha": patchSums, "signatureSha": sigSums, "relations": pair.FeatList()}
	}
	return res
}

// c15BiggestAdd returns the largest add region of all bsdiff series in an optimized patch.
func c15BiggestAdd(patch []byte) (int64, bool) {
	ps, err := lib.DecodePatch(patch)
	if err != nil {
		return 0, false
	}
	var m int64
	for _, se := range ps.Series {
		for _, c := range se.Ctrls {
			if int64(len(c.Add)) > m {
				m = int64(len(c.Add))
			}
		}
	}
	return m, true
}

// c15MappingDiff says whether two optimized patches differ in which old file a series was mapped to.
func c15MappingDiff(a, b []byte) string {
	pa, ea := lib.DecodePatch(a)
	pb, eb := lib.DecodePatch(b)
	if ea != nil || eb != nil || len(pa.Series) != len(pb.Series) {
		return ""
	}
	for i := range pa.Series {
		x, y := pa.Series[i].BsHdr, pb.Series[i].BsHdr
		if (x == nil) != (y == nil) {
			return fmt.Sprintf("file %d is a bsdiff series in one run and not in the other", i)
		}
		if x != nil && x.TargetIndex != y.TargetIndex {
			return fmt.Sprintf("file %d (%s) mapped to old file %d in one run and %d in the other", i, pa.New.Files[i].Path, x.TargetIndex, y.TargetIndex)
		}
	}
	return ""
}

func init() {
	lib.Register(&lib.Property{
		ID:           "C15",
		Level:        "exploration",
		Rule:         "pairs (generic, equal shares of several old files = ties in the optimizer's mapping choice, many tiny files = many per-file goroutine triples, files of 0/1/16K±1/64K/128K+1 bytes; plain flavour only: an old file of 2240 blocks in which seven distinct blocks recur in every part, diff runs only); each diffed R times (6 quick / 16 thorough) with a different controller seed per run: source pool slicing every read to a random short length and yielding/spinning/sleeping, patch and signature sinks that perturb the diff and sign goroutines independently, GOMAXPROCS cycling 1/2/4/16; the second run uses a DiffContext object that has already diffed a decoy old build with the same paths, sizes and block counts; patch and signature bytes must be identical across runs; the optimizer is run R times for three parameter sets with the bsdiff hooks perturbing workers/dispatcher/collector on every other run and must produce identical bytes (two thirds of the runs share pools that earlier runs used). The same reduced list runs under the Go race detector; every de-duplicated report with a wharf frame in pwr/diff, multiread, taskgroup, ctxcopy, wsync, bsdiff or pwr/rediff is a violation. distinct = distinct (shape, compression, pair)",
		Assumptions:  []string{"the race detector only sees executed interleavings", "map iteration order cannot be controlled, only sampled by repetition"},
		Flavors:      func(tier string) []string { return []string{"plain", "race"} },
		Cases:        c15Cases,
		Run:          c15Run,
		Batch:        3,
		CaseBudget:   600 * 1e9,
		RaceDeciding: true,
		RaceFilter: func(rep string) bool {
			for _, p := range []string{"wharf/pwr.", "wharf/pwr/rediff", "wharf/multiread", "wharf/taskgroup", "wharf/ctxcopy", "wharf/wsync", "wharf/bsdiff", "wharf/wire", "wharf/splitfunc"} {
				if strings.Contains(rep, p) {
					return true
				}
			}
			return false
		},
	})
}
