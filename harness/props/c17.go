package props

import (
	"bytes"
	"fmt"
	"github.com/itchio/lake"
	"path/filepath"
	"sort"
	"sync"

	"github.com/itchio/lake/pools/fspool"
	"github.com/itchio/savior/seeksource"
	"github.com/itchio/wharf/pwr/bowl"
	"github.com/itchio/wharf/pwr/patcher"
	"verif/lib"
)

// C17 — partial application by whitelist produces exactly the selected files (DESIGN §5 C17).

type c17Spec struct {
	Seed      uint64   `json:"seed"`
	Optimized bool     `json:"optimized"`
	Comp      lib.Comp `json:"comp"`
	NFiles    int      `json:"nFiles"`
	// Wide: an old build of more than 2049 files, so that series refer to old file indices whose value
	// collides with other fields' magic values (2049 is the end-marker op type)
	Wide bool `json:"wide"`
	// Split: one old file X is used by three consecutive new files: its first blocks, a whole copy, its remaining blocks
	Split bool `json:"split,omitempty"`
}

func c17Cases(tier string, seed uint64, flavor string) []lib.Case {
	n := 24
	if tier == "thorough" {
		n = 1200
	}
	comps := lib.FastComps()[:3]
	comps = []lib.Comp{{Algo: "none"}, {Algo: "gzip", Quality: 6}, {Algo: "brotli", Quality: 1}}
	var cases []lib.Case
	for i := 0; i < n; i++ {
		s := c17Spec{Seed: lib.Mix(seed, 17, uint64(i)), Optimized: i%2 == 1, Comp: comps[i%3], NFiles: 3 + i%7}
		cases = append(cases, lib.Case{Seed: s.Seed, Kind: "whitelist", Spec: lib.MustSpec(s)})
	}
	for k := 0; k < 3; k++ {
		s := c17Spec{Seed: lib.Mix(seed, 171, uint64(k)), Optimized: false, Comp: comps[k], Split: true}
		cases = append(cases, lib.Case{Seed: s.Seed, Kind: "whitelist-split", Spec: lib.MustSpec(s)})
	}
	for _, comp := range []lib.Comp{{Algo: "none"}, {Algo: "brotli", Quality: 1}} {
		s := c17Spec{Seed: lib.Mix(seed, 170), Optimized: true, Comp: comp, Wide: true}
		cases = append(cases, lib.Case{Seed: s.Seed, Kind: "whitelist-wide", Spec: lib.MustSpec(s)})
	}
	return cases
}

// c17WidePair: 2060 small old files; a handful of new files around old index 2049 are modified (each is
// bsdiff-mapped to its own old file in the optimized patch), the rest unchanged.
func c17WidePair(seed uint64) (*lib.Pair, []string) {
	r := lib.NewRng(lib.Mix(seed, 1718))
	p := &lib.Pair{Old: lib.NewBuild(), New: lib.NewBuild(), Feat: map[string]bool{}}
	var kinds []string
	for i := 0; i < 2060; i++ {
		name := fmt.Sprintf("w/f%04d.bin", i)
		d := lib.RandomBytes(int64(20+r.Intn(30)), r.Uint64())
		p.Old.PutFile(name, d)
		if i >= 2046 && i <= 2052 {
			nd := append([]byte(nil), d...)
			nd[3] ^= 0x11
			nd = append(nd, byte(i))
			p.New.PutFile(name, nd)
			kinds = append(kinds, "patched")
		} else {
			p.New.PutFile(name, d)
			kinds = append(kinds, "copy")
		}
	}
	return p, kinds
}

// c17Pair builds n new files mixing the series kinds so that every adjacency occurs.
// alignedOr rounds a size up to a whole number of blocks in a third of the calls.
func alignedOr(r *lib.Rng, sz int64) int64 {
	if r.Intn(3) == 0 {
		return (sz + lib.BS - 1) / lib.BS * lib.BS
	}
	return sz
}

func c17Pair(seed uint64, n int) (*lib.Pair, []string) {
	r := lib.NewRng(lib.Mix(seed, 1717))
	p := &lib.Pair{Old: lib.NewBuild(), New: lib.NewBuild(), Feat: map[string]bool{}}
	kinds := []string{"patched", "copy", "fresh", "empty", "renamed", "patched"}
	r.Shuffle(len(kinds), func(i, j int) { kinds[i], kinds[j] = kinds[j], kinds[i] })
	var ks []string
	// every patched file of the pair may get exactly the same old size (with different bytes): anything that is
	// remembered from one old file to the next by size alone shows when only some of them are selected
	sameSize := int64(0)
	if r.Bool() {
		sameSize = int64(r.Range(3, 9))*lib.BS + int64(r.Intn(5000))
	}
	for i := 0; i < n; i++ {
		k := kinds[i%len(kinds)]
		name := fmt.Sprintf("f%02d.bin", i)
		switch k {
		case "patched": // rsync data + ranges; bsdiff in the optimized variant
			sz := alignedOr(r, int64(r.Range(3, 9))*lib.BS+int64(r.Intn(5000)))
			if sameSize > 0 {
				sz = sameSize
			}
			d := lib.RandomBytes(sz, r.Uint64())
			nd := append([]byte(nil), d...)
			for e := 0; e < 3; e++ {
				off := r.Intn(len(nd) - 200)
				lib.FillRandom(nd[off:off+r.Range(1, 150)], r.Uint64())
			}
			p.Old.PutFile(name, d)
			p.New.PutFile(name, nd)
		case "copy": // whole-file op, same path (a third of them exactly k blocks long)
			d := lib.RandomBytes(alignedOr(r, int64(r.Range(1, 3*lib.BS))), r.Uint64())
			p.Old.PutFile(name, d)
			p.New.PutFile(name, d)
		case "renamed": // whole-file op from another old path
			d := lib.RandomBytes(alignedOr(r, int64(r.Range(1, 3*lib.BS))), r.Uint64())
			p.Old.PutFile("old-"+name, d)
			p.New.PutFile(name, d)
		case "fresh":
			p.New.PutFile(name, lib.RandomBytes(int64(r.Range(1, 2*lib.BS)), r.Uint64()))
		case "empty":
			p.New.PutFile(name, nil)
			if r.Bool() {
				p.Old.PutFile(name, lib.RandomBytes(100, r.Uint64()))
			}
		}
		ks = append(ks, k)
	}
	return p, ks
}

// recBowl records what the patcher asks of the bowl.
type recBowl struct {
	bowl.Bowl
	mu      sync.Mutex
	writers map[int64]int
	transp  map[int64]int
}

func (b *recBowl) GetWriter(i int64) (bowl.EntryWriter, error) {
	b.mu.Lock()
	b.writers[i]++
	b.mu.Unlock()
	return b.Bowl.GetWriter(i)
}
func (b *recBowl) Transpose(t bowl.Transposition) error {
	b.mu.Lock()
	b.transp[t.SourceIndex]++
	b.mu.Unlock()
	return b.Bowl.Transpose(t)
}

func c17Run(c lib.Case, env *lib.Env) lib.Result {
	var s c17Spec
	lib.ReadSpec(c, &s)
	res := lib.Result{NonTrivial: true}
	pair, kinds := c17Pair(s.Seed, s.NFiles)
	if s.Wide {
		pair, kinds = c17WidePair(s.Seed)
	}
	if s.Split {
		r := lib.NewRng(lib.Mix(s.Seed, 1718))
		pair = &lib.Pair{Old: lib.NewBuild(), New: lib.NewBuild(), Feat: map[string]bool{}}
		k := r.Range(1, 3)
		X := lib.RandomBytes(int64(k+r.Range(1, 3))*lib.BS+int64(r.Intn(3000)), r.Uint64())
		pair.Old.PutFile("s2-copy.bin", X)
		// (the differ does not re-find a last full block at a shifted offset, so the head is a block-aligned prefix:
		// its series then ENDS with the block range [0,k) of X)
		pair.New.PutFile("s1-head.bin", append([]byte(nil), X[:k*lib.BS]...))
		pair.New.PutFile("s2-copy.bin", X)
		pair.New.PutFile("s3-rest.bin", append(append([]byte(nil), X[k*lib.BS:]...), lib.RandomBytes(int64(r.Range(1, 3000)), r.Uint64())...))
		pair.New.PutFile("s4-fresh.bin", lib.RandomBytes(int64(r.Range(1, 3000)), r.Uint64()))
		kinds = []string{"patched", "copy", "patched", "fresh"}
	}
	oldDir, newDir := filepath.Join(env.Scratch, "old"), filepath.Join(env.Scratch, "new")
	pair.Old.Materialize(oldDir)
	pair.New.Materialize(newDir)
	dr, err := lib.DiffDirs(oldDir, newDir, s.Comp, nil, nil, nil)
	if err != nil {
		res.Violate("diff-error", err.Error())
		return res
	}
	patch := dr.Patch
	if s.Optimized {
		var ob bytes.Buffer
		cc := s.Comp
		if err := lib.Optimize(patch, oldDir, newDir, lib.OptParams{Partitions: 2, Comp: &cc}, &ob); err != nil {
			res.Inconclusive("optimizer: " + err.Error())
			return res
		}
		patch = ob.Bytes()
	}
	ps, err := lib.DecodePatch(patch)
	if err != nil {
		res.Violate("patch-grammar", err.Error())
		return res
	}
	n := len(ps.New.Files)
	// refs(i): old files a whitelisted series may read, from the independently decoded patch
	refs := make([]map[int64]bool, n)
	for i, se := range ps.Series {
		refs[i] = map[int64]bool{}
		if se.BsHdr != nil {
			refs[i][se.BsHdr.TargetIndex] = true
		}
		for _, op := range se.Ops {
			if op.Type == 0 { // BLOCK_RANGE
				refs[i][op.FileIndex] = true
			}
		}
	}
	// subsets: all 2^n for n <= 8, else structured + random
	var subsets [][]int
	if s.Wide {
		all := []int{}
		for i := 0; i < n; i++ {
			all = append(all, i)
		}
		without := func(skip ...int) []int {
			var out []int
			for _, i := range all {
				keep := true
				for _, k := range skip {
					if i == k {
						keep = false
					}
				}
				if keep {
					out = append(out, i)
				}
			}
			return out
		}
		subsets = [][]int{nil, all, without(2049), without(2048), without(2047, 2049, 2051), {2050}, {2046, 2052}, {0, 2050, 2059}, without(2046, 2047, 2048, 2049, 2050, 2051, 2052)}
	} else if n <= 8 {
		for m := 0; m < 1<<uint(n); m++ {
			var sub []int
			for i := 0; i < n; i++ {
				if m&(1<<uint(i)) != 0 {
					sub = append(sub, i)
				}
			}
			subsets = append(subsets, sub)
		}
	} else {
		full := []int{}
		for i := 0; i < n; i++ {
			full = append(full, i)
			subsets = append(subsets, []int{i})
			var comp []int
			for j := 0; j < n; j++ {
				if j != i {
					comp = append(comp, j)
				}
			}
			subsets = append(subsets, comp)
		}
		subsets = append(subsets, nil, full)
		r := lib.NewRng(lib.Mix(s.Seed, 171))
		for k := 0; k < 64; k++ {
			var sub []int
			for i := 0; i < n; i++ {
				if r.Bool() {
					sub = append(sub, i)
				}
			}
			subsets = append(subsets, sub)
		}
	}
	newFiles := map[int][]byte{}
	for i, f := range ps.New.Files {
		newFiles[i] = pair.New.E[f.Path].Data
	}
	desc := fmt.Sprintf("seed=%d optimized=%v comp=%s kinds=%v", s.Seed, s.Optimized, s.Comp, kinds)
	if s.Wide {
		desc = fmt.Sprintf("seed=%d optimized=%v comp=%s wide build: 2060 old files, new files 2046..2052 patched (bsdiff target = own index)", s.Seed, s.Optimized, s.Comp)
	}
	runOne := func(sub []int, nilWhitelist bool, withSaves bool, idx int) {
		out := filepath.Join(env.Scratch, fmt.Sprintf("out%d", idx))
		p, err := patcher.New(seeksource.FromBytes(patch), lib.Quiet())
		if err != nil {
			res.Violate("patcher-new-error", desc, err.Error())
			return
		}
		wl := map[int64]bool{}
		for _, i := range sub {
			wl[int64(i)] = true
		}
		if idx%2 == 1 {
			// the other natural way to build the map: an entry for every index, false for the unwanted ones
			for i := 0; i < n; i++ {
				if !wl[int64(i)] {
					wl[int64(i)] = false
				}
			}
			res.Add("whitelists_with_explicit_false_entries", 1)
		}
		if !nilWhitelist {
			p.SetSourceIndexWhitelist(wl)
		}
		var inner lake.Pool = fspool.New(p.GetTargetContainer(), oldDir)
		if c.ID%2 == 1 {
			inner = &lib.StalePool{Inner: inner, Rng: lib.NewRng(lib.Mix(s.Seed, 171))}
		}
		rp := &lib.RecordingPool{Inner: inner}
		var tpool lake.Pool = rp
		if s.Split {
			tpool = inner // the pool's own reader objects, unwrapped (no access log for these cases)
		}
		fb, err := bowl.NewFreshBowl(bowl.FreshBowlParams{SourceContainer: p.GetSourceContainer(), TargetContainer: p.GetTargetContainer(), TargetPool: tpool, OutputFolder: out})
		if err != nil {
			res.Violate("bowl-error", desc, err.Error())
			return
		}
		rb := &recBowl{Bowl: fb, writers: map[int64]int{}, transp: map[int64]int{}}
		var cp *patcher.Checkpoint
		stops := 0
		if withSaves {
			// stop at every 3rd checkpoint and resume on the SAME patcher instance (the way butler's pause works)
			cnt := 0
			p.SetSaveConsumer(&c03Consumer{onSave: func(idx int, c *patcher.Checkpoint, enc []byte) (patcher.AfterSaveAction, error) {
				cnt++
				if cnt%3 == 0 {
					d, err := decodeCheckpoint(enc)
					if err != nil {
						return patcher.AfterSaveContinue, err
					}
					cp = d
					return patcher.AfterSaveStop, nil
				}
				return patcher.AfterSaveContinue, nil
			}})
		}
		for {
			cur := cp
			cp = nil
			rerr := p.Resume(cur, tpool, rb)
			if isStop(rerr) && cp != nil {
				stops++
				continue
			}
			if rerr != nil {
				res.Violate("resume-error-with-whitelist", desc, fmt.Sprintf("whitelist=%v saves=%v: %v", sub, withSaves, rerr))
				return
			}
			break
		}
		res.Add("whitelist_runs", 1)
		res.Add("stops_resumed", int64(stops))
		want := sub
		if nilWhitelist {
			want = nil
			for i := 0; i < n; i++ {
				want = append(want, i)
			}
		}
		wdesc := fmt.Sprintf("whitelist=%v nil=%v saves=%v stops=%d", sub, nilWhitelist, withSaves, stops)
		if p.GetTouchedFiles() != int64(len(want)) {
			res.Violate("touched-files-count", desc, wdesc, fmt.Sprintf("GetTouchedFiles() = %d, want %d", p.GetTouchedFiles(), len(want)))
		}
		// bowl calls == W exactly (a file resumed after a stop legitimately asks for its writer again)
		touched := map[int64]int{}
		for i, k := range rb.writers {
			touched[i] += k
		}
		for i, k := range rb.transp {
			touched[i] += k
		}
		var outside, missing []int64
		wantSet := map[int64]bool{}
		for _, i := range want {
			wantSet[int64(i)] = true
			if touched[int64(i)] == 0 {
				missing = append(missing, int64(i))
			}
			if touched[int64(i)] > 1 && stops == 0 {
				res.Violate("bowl-asked-twice", desc, wdesc, fmt.Sprintf("file %d asked %d times in an uninterrupted run", i, touched[int64(i)]))
			}
		}
		for i := range touched {
			if !wantSet[i] {
				outside = append(outside, i)
			}
		}
		sort.Slice(outside, func(a, b int) bool { return outside[a] < outside[b] })
		if len(outside) > 0 {
			res.Violate("bowl-touched-non-whitelisted", desc, wdesc, fmt.Sprintf("bowl was asked for files %v", outside))
		}
		if len(missing) > 0 {
			res.Violate("bowl-missed-whitelisted", desc, wdesc, fmt.Sprintf("bowl was never asked for files %v", missing))
		}
		// content of whitelisted files
		for _, i := range want {
			f := ps.New.Files[i]
			got := mustRead(filepath.Join(out, filepath.FromSlash(f.Path)))
			if !bytes.Equal(got, newFiles[i]) {
				res.Violate("whitelisted-file-wrong", desc, wdesc, fmt.Sprintf("file %d (%s, %s): %d bytes, first diff at %d, want %d", i, f.Path, kinds[i%len(kinds)], len(got), firstDiffAt(got, newFiles[i]), len(newFiles[i])))
			}
			res.Add("files_compared", 1)
		}
		// old-build reads only for whitelisted series
		allowed := map[int64]bool{}
		for _, i := range want {
			for t := range refs[i] {
				allowed[t] = true
			}
		}
		for _, a := range rp.Log {
			if !allowed[a.File] {
				res.Violate("old-data-read-for-non-whitelisted", desc, wdesc, fmt.Sprintf("pool access %s on old file %d which no whitelisted series references (allowed %v)", a.What, a.File, keysOf(allowed)))
				break
			}
		}
		res.Add("pool_accesses_checked", int64(len(rp.Log)))
	}
	for idx, sub := range subsets {
		runOne(sub, false, false, idx)
	}
	// nil whitelist behaves as full; stop/resume on the same instance with a few subsets
	runOne(nil, true, false, len(subsets))
	for k := 0; k < 6 && k < len(subsets) && !s.Wide; k++ {
		runOne(subsets[(k*37+len(subsets)-1)%len(subsets)], false, true, len(subsets)+1+k)
	}
	res.Add("subsets", int64(len(subsets)))
	res.Add("executions", res.Obs["whitelist_runs"])
	if n <= 8 {
		res.Add("patches_with_all_subsets", 1)
	}
	for i, k := range kinds {
		if i > 0 {
			res.SetAdd("kind_adjacencies", kinds[i-1]+">"+k)
		}
	}
	res.Feat = []string{fmt.Sprintf("n=%d|opt=%v|%s|%v", n, s.Optimized, s.Comp.Algo, kinds)}
	if s.Wide {
		res.Feat = []string{fmt.Sprintf("wide|n=%d|%s", n, s.Comp.Algo)}
	}
	if c.ID < 3 {
		res.Sample = map[string]interface{}{"seed": s.Seed, "files": n, "kinds": headStr(kinds, 12), "optimized": s.Optimized, "comp": s.Comp.String(), "subsets": len(subsets), "all_subsets": n <= 8}
	}
	return res
}

func keysOf(m map[int64]bool) []int64 {
	var out []int64
	for k := range m {
		out = append(out, k)
	}
	sort.Slice(out, func(a, b int) bool { return out[a] < out[b] })
	return out
}

func init() {
	lib.Register(&lib.Property{
		ID:          "C17",
		Level:       "exploration",
		Rule:        "patches (plain and optimized; NONE/GZIP/BROTLI) over 3..9 new files mixing series kinds (patched = rsync data+ranges or bsdiff, whole-file copy, rename, brand-new, empty) in shuffled order; ALL 2^n whitelists for n <= 8, otherwise empty, full, singletons, complements of singletons and 64 random subsets; plus the nil whitelist and stop-at-every-3rd-checkpoint/resume on the same patcher. Monitors: a recording bowl around the fresh bowl (GetWriter/Transpose per index must equal the whitelist exactly), GetTouchedFiles, byte comparison of every whitelisted file, a recording target pool (in odd cases over a pool that hands a just-used reader back at an arbitrary position) whose accesses must be a subset of the old files referenced by whitelisted series in the independently decoded patch (no access at all for the empty whitelist). distinct = distinct (file count, kind order, optimized, algorithm)",
		Assumptions: []string{"a file resumed after a stop may legitimately ask the bowl for its writer again"},
		Cases:       c17Cases,
		Run:         c17Run,
		Batch:       1,
		CaseBudget:  600 * 1e9,
	})
}
