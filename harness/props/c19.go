package props

import (
	"archive/tar"
	"archive/zip"
	"bytes"
	"context"
	"fmt"
	"github.com/itchio/wharf/pwr"
	"io"
	"os"
	"path/filepath"
	"strconv"
	"strings"
	"sync"
	"time"

	"github.com/itchio/lake/pools/fspool"
	"github.com/itchio/wharf/archiver"
	"github.com/itchio/wharf/archiver/containerarchiver"
	"verif/lib"
)

// C19 — archive then extract gives the same tree for any concurrency and resume point (DESIGN §5 C19).

type c19Spec struct {
	Seed    uint64 `json:"seed"`
	Tree    string `json:"tree"`   // nested | tiny600 | mixed-big | small
	Format  string `json:"format"` // zip | czip | tar
	Workers int    `json:"workers"`
	Mode    string `json:"mode"`   // plain | resume
	HoldA   int    `json:"holdA"`  // resume mode: entry index whose data is held back
	SnapAt  int    `json:"snapAt"` // resume mode: snapshot at the j-th OnEntryDone
}

func c19Tree(seed uint64, name string) *lib.Build {
	r := lib.NewRng(lib.Mix(seed, 1919))
	b := lib.NewBuild()
	rb := func(n int) []byte { return lib.RandomBytes(int64(n), r.Uint64()) }
	switch name {
	case "tiny600":
		for i := 0; i < 600; i++ {
			b.PutFile(fmt.Sprintf("d%02d/t%03d", i%13, i), rb(r.Intn(60)))
		}
		b.PutDir("hollow/inner")
	case "mixed-big": // a few files of 1-3 MiB among tiny ones, so big entries finish late
		for i := 0; i < 120; i++ {
			b.PutFile(fmt.Sprintf("m/t%03d", i), rb(r.Intn(200)))
		}
		b.PutFile("a-big0.bin", rb(r.Range(1*lib.MB, 3*lib.MB)))
		b.PutFile(".dot-among-big", rb(1000))
		b.PutFile("m/big1.bin", rb(r.Range(1*lib.MB, 2*lib.MB)))
		b.PutFile("z-big2.bin", rb(1*lib.MB))
		b.PutFile("m/exactly-4m.bin", rb(4*lib.MB))
		b.PutFile("big-5m.bin", rb(5*lib.MB+17))
		b.PutFile("m/big1.bin.tmp", rb(r.Range(10, 5000))) // a real entry named like a temporary file of its sibling
		b.PutFile("m/t000.tmp", rb(77))
		b.PutSymlink("m/lnk", "t001")
	case "single": // exactly one regular file (file index 0 is the first and the last one a pool is asked for)
		b.PutFile("only.bin", rb(r.Range(1000, 200000)))
	case "small":
		b.PutFile("a.bin", rb(3000))
		b.PutFile(".top-dot", rb(9))
		b.PutFile("..two-dots/x", rb(19))
		b.PutFile("b/c.bin", rb(70000))
		b.PutFile("b/c.bin.tmp", rb(900))
		b.PutFile("b/c.bin.part", rb(50))
		b.PutFile("b/empty", nil)
		b.PutDir("e")
		b.PutSymlink("s", "a.bin")
		b.PutSymlink("s-odd", "./b/../a.bin")
		// byte order of paths differs from walk order: a directory next to names that continue its name with '.' / '-'
		b.PutFile("data/x.bin", rb(100))
		b.PutFile("data.txt", rb(101))
		b.PutFile("data-old/y.bin", rb(102))
		b.PutSymlink("b/a-link-to-dir", "../e") // a link to a directory with siblings sorted after it
		b.PutFile("notes..txt", rb(33))         // names that merely CONTAIN two dots
		b.PutFile("release-1..2/...and-more", rb(44))
		for i := 0; i < 12; i++ {
			b.PutFile(fmt.Sprintf("b/f%02d", i), rb(r.Intn(3000)))
		}
	default: // nested
		b.PutFile("top.bin", rb(100000))
		b.PutFile(".dotfile-at-top", rb(40))
		b.PutFile(".config/inner.bin", rb(300))
		b.PutFile("config/inner.bin", rb(301))
		b.PutFile("..data", rb(5))
		b.PutSymlink(".dotlink", "top.bin")
		b.PutDir(".emptydotdir")
		b.PutFile("dir with space/ünï çødé 日本.bin", rb(321))
		b.PutFile("-dash/.hidden/"+strings.Repeat("long", 50)+".bin", rb(12))
		b.PutFile("a/b/c/deep.bin", rb(5000))
		b.PutFile("a/empty.bin", nil)
		b.PutFile("a/b/x.bin", rb(1))
		b.PutDir("hollow")
		b.PutDir("a/hollow2/hollow3")
		b.PutSymlink("lnk-file", "top.bin")
		b.PutSymlink("a/lnk-dir", "b")
		b.PutSymlink("dangling", "no/where")
		// destinations that are legal but not in their shortest form: stored and restored verbatim
		b.PutSymlink("lnk-odd-dot", "./top.bin")
		b.PutSymlink("lnk-odd-slash", "a//b")
		b.PutSymlink("a/lnk-odd-dotdot", "b/../empty.bin")
		b.PutSymlink("lnk-odd-trailing", "hollow/")
		b.PutSymlink("lnk-odd-mid", "a/./b/x.bin")
		for i := 0; i < 40; i++ {
			b.PutFile(fmt.Sprintf("a/b/n%02d.bin", i), rb(r.Intn(9000)))
		}
	}
	return b
}

func c19Cases(tier string, seed uint64, flavor string) []lib.Case {
	var cases []lib.Case
	trees := []string{"nested", "tiny600", "mixed-big", "small"}
	ntree := 1
	if tier == "thorough" {
		ntree = 30
	}
	workers := []int{-1, 1, 2, 3, 4, 5, 6, 7, 8, 9, 10, 11, 12, 13, 14, 15, 16}
	if flavor == "race" {
		workers = []int{2, 4, 16}
	}
	for t := 0; t < ntree; t++ {
		ts := lib.Mix(seed, 19, uint64(t))
		for ti, tr := range trees {
			for wi, w := range workers {
				format := []string{"zip", "czip"}[(wi+ti)%2]
				if tier == "thorough" || (wi+ti)%2 == 0 || flavor == "race" {
					cases = append(cases, lib.Case{Seed: ts, Kind: "plain/" + format, Spec: lib.MustSpec(c19Spec{Seed: ts, Tree: tr, Format: format, Workers: w, Mode: "plain"})})
				}
			}
			if flavor != "race" {
				cases = append(cases, lib.Case{Seed: ts, Kind: "plain/tar", Spec: lib.MustSpec(c19Spec{Seed: ts, Tree: tr, Format: "tar", Workers: 1, Mode: "plain"})})
			}
		}
		// a pool that has been used before it serves the archiver (archived twice / hashed first); one-file tree included
		for _, tr := range []string{"single", "small"} {
			for _, f := range []string{"czip-twice", "czip-hashed-first", "zip", "tar"} {
				if flavor == "race" && f == "tar" {
					continue
				}
				cases = append(cases, lib.Case{Seed: ts, Kind: "plain/" + f, Spec: lib.MustSpec(c19Spec{Seed: ts, Tree: tr, Format: f, Workers: []int{1, 4}[t%2], Mode: "plain"})})
			}
		}
		// resumable extraction: snapshots = crash states
		if flavor == "race" {
			continue
		}
		r := lib.NewRng(lib.Mix(ts, 191))
		for _, tr := range []string{"small", "mixed-big", "nested"} {
			nsnap := 40
			n := len(c19Tree(ts, tr).E)
			for k := 0; k < nsnap; k++ {
				w := []int{1, 2, 3, 4, 8, 16}[k%6]
				snapAt := 1 + k%n
				if tr != "small" {
					snapAt = r.Range(1, n-1)
				}
				hold := r.Range(0, n/2)
				if tier != "thorough" && tr != "small" && k >= 20 {
					continue
				}
				cases = append(cases, lib.Case{Seed: ts, Kind: "resume", Spec: lib.MustSpec(c19Spec{Seed: ts, Tree: tr, Format: "zip", Workers: w, Mode: "resume", HoldA: hold, SnapAt: snapAt})})
			}
		}
	}
	return cases
}

// holdReaderAt delays reads that fall into the data of one entry until released.
type holdReaderAt struct {
	r        io.ReaderAt
	from, to int64 // byte range of the held entry's data
	mu       sync.Mutex
	released bool
	maxWait  time.Duration
	held     int
}

func (h *holdReaderAt) release() {
	h.mu.Lock()
	h.released = true
	h.mu.Unlock()
}

func (h *holdReaderAt) ReadAt(p []byte, off int64) (int, error) {
	if off+int64(len(p)) > h.from && off < h.to {
		deadline := time.Now().Add(h.maxWait)
		for {
			h.mu.Lock()
			rel := h.released
			h.mu.Unlock()
			if rel || time.Now().After(deadline) {
				break
			}
			h.mu.Lock()
			h.held++
			h.mu.Unlock()
			time.Sleep(200 * time.Microsecond)
		}
	}
	return h.r.ReadAt(p, off)
}

type entryCounts struct{ dirs, files, links int }

func zipCounts(zr *zip.Reader, from int) entryCounts {
	var c entryCounts
	for i, f := range zr.File {
		if i < from {
			continue
		}
		m := f.FileInfo().Mode()
		switch {
		case m.IsDir():
			c.dirs++
		case m&os.ModeSymlink != 0:
			c.links++
		default:
			c.files++
		}
	}
	return c
}

// c19Run wraps the case in seeded perturbation at the extraction hooks (entry start, entry extracted,
// progress written) on every other case.
func c19Run(c lib.Case, env *lib.Env) lib.Result {
	if c.ID%2 == 0 {
		return c19RunInner(c, env)
	}
	sc := lib.NewSched("perturb", lib.Mix(c.Seed, uint64(c.ID)))
	sc.P = 0.2
	lib.SetHook(sc)
	res := c19RunInner(c, env)
	lib.SetHook(nil)
	res.Add("hook_events", int64(len(sc.Events())))
	res.Add("cases_with_perturbed_hooks", 1)
	res.SetAdd("interleaving_signatures", sc.Signature())
	return res
}

func c19RunInner(c lib.Case, env *lib.Env) lib.Result {
	var s c19Spec
	lib.ReadSpec(c, &s)
	res := lib.Result{NonTrivial: true}
	tree := c19Tree(s.Seed, s.Tree)
	src := filepath.Join(env.Scratch, "src")
	tree.Materialize(src)
	desc := fmt.Sprintf("tree=%s format=%s workers=%d mode=%s seed=%d", s.Tree, s.Format, s.Workers, s.Mode, s.Seed)
	// the source directory is named in a legal, non-canonical way in two cases out of three
	os.MkdirAll(filepath.Join(env.Scratch, "x"), 0o755)
	spell := []string{src, src + "/", src + "/.", env.Scratch + "//src", env.Scratch + "/./src", env.Scratch + "/x/../src", src, src + "//", src}[c.ID%9]
	if s.Format == "tar" { // few tar cases: each one gets a non-canonical spelling
		spell = []string{src + "/.", env.Scratch + "//src", env.Scratch + "/./src", env.Scratch + "/x/../src"}[c.ID%4]
	}
	if spell != src {
		desc += " sourceDirSpelled=" + strings.Replace(spell, env.Scratch, "<scratch>", 1)
		res.Add("archives_of_a_source_directory_named_non_canonically", 1)
		src = spell
	}
	var ab bytes.Buffer
	switch s.Format {
	case "czip-twice", "czip-hashed-first":
		cont, err := lib.Walk(src)
		if err != nil {
			res.Inconclusive(err.Error())
			return res
		}
		pool := fspool.New(cont, src)
		if s.Format == "czip-twice" {
			var first bytes.Buffer
			if _, err := containerarchiver.CompressZip(&first, cont, pool, lib.Quiet()); err != nil {
				res.Violate("container-compresszip-error", desc, "first archive: "+err.Error())
				return res
			}
		} else if _, err := pwr.ComputeSignature(context.Background(), cont, pool, lib.Quiet()); err != nil {
			res.Inconclusive("hash pass: " + err.Error())
			return res
		}
		if _, err := containerarchiver.CompressZip(&ab, cont, pool, lib.Quiet()); err != nil {
			res.Violate("container-compresszip-error", desc, err.Error())
			return res
		}
		res.Add("archives_from_a_pool_used_before", 1)
		s.Format = "czip"
	case "zip":
		if _, err := archiver.CompressZip(&ab, src, lib.Quiet()); err != nil {
			res.Violate("compresszip-error", desc, err.Error())
			return res
		}
	case "czip":
		cont, err := lib.Walk(src)
		if err != nil {
			res.Inconclusive(err.Error())
			return res
		}
		if _, err := containerarchiver.CompressZip(&ab, cont, fspool.New(cont, src), lib.Quiet()); err != nil {
			res.Violate("container-compresszip-error", desc, err.Error())
			return res
		}
	case "tar":
		if _, err := archiver.CompressTar(&ab, src, lib.Quiet()); err != nil {
			res.Violate("compresstar-error", desc, err.Error())
			return res
		}
	}
	arc := ab.Bytes()
	res.Add("archives", 1)

	out := filepath.Join(env.Scratch, "out")
	settings := archiver.ExtractSettings{Consumer: lib.Quiet(), Concurrency: s.Workers}

	if s.Format == "tar" {
		ap := filepath.Join(env.Scratch, "a.tar")
		os.WriteFile(ap, arc, 0o644)
		er, err := archiver.ExtractTar(ap, out, settings)
		if err != nil {
			res.Violate("extracttar-error", desc, err.Error())
			return res
		}
		var want entryCounts
		tr := tar.NewReader(bytes.NewReader(arc))
		for {
			h, err := tr.Next()
			if err != nil {
				break
			}
			switch h.Typeflag {
			case tar.TypeDir:
				want.dirs++
			case tar.TypeSymlink:
				want.links++
			default:
				want.files++
			}
		}
		c19Compare(&res, desc, out, tree, er, want, "tar")
		res.Feat = []string{s.Tree + "|tar"}
		return res
	}

	zr, err := zip.NewReader(bytes.NewReader(arc), int64(len(arc)))
	if err != nil {
		res.Violate("archive-unreadable-by-stdlib", desc, err.Error())
		return res
	}
	if s.Mode == "plain" {
		var er *archiver.ExtractResult
		if c.ID%3 == 2 {
			// the path-based entry point (opens the archive file itself)
			ap := filepath.Join(env.Scratch, "archive.zip")
			if werr := os.WriteFile(ap, arc, 0o644); werr != nil {
				res.Inconclusive(werr.Error())
				return res
			}
			er, err = archiver.ExtractPath(ap, out, settings)
			res.Add("extractions_through_extractpath", 1)
		} else {
			er, err = archiver.ExtractZip(bytes.NewReader(arc), int64(len(arc)), out, settings)
		}
		if err != nil {
			res.Violate("extractzip-error", desc, err.Error())
			return res
		}
		res.Add("extractions", 1)
		c19Compare(&res, desc, out, tree, er, zipCounts(zr, 0), fmt.Sprintf("workers=%d", s.Workers))
		res.SetAdd("worker_counts", fmt.Sprint(s.Workers))
		res.Feat = []string{fmt.Sprintf("%s|%s|w=%d", s.Tree, s.Format, s.Workers)}
		if c.ID%29 == 0 {
			res.Sample = map[string]interface{}{"tree": s.Tree, "format": s.Format, "workers": s.Workers, "entries": len(zr.File), "reported": fmt.Sprintf("%+v", *er)}
		}
		return res
	}

	// ---- resume mode: snapshot = crash state
	resumeFile := filepath.Join(env.Scratch, "resume.txt")
	snapDir := filepath.Join(env.Scratch, "snap")
	snapResume := filepath.Join(env.Scratch, "snap-resume.txt")
	hold := s.HoldA
	if hold >= len(zr.File) {
		hold = 0
	}
	// find a regular-file entry at or after hold to hold back
	for hold < len(zr.File) && !zr.File[hold].FileInfo().Mode().IsRegular() {
		hold++
	}
	hr := &holdReaderAt{r: bytes.NewReader(arc), maxWait: 400 * time.Millisecond}
	if hold < len(zr.File) {
		off, _ := zr.File[hold].DataOffset()
		hr.from, hr.to = off, off+int64(zr.File[hold].CompressedSize64)
		if hr.to == hr.from {
			hr.to++
		}
	}
	var mu sync.Mutex
	doneCnt := 0
	snapped := false
	settings.ResumeFrom = resumeFile
	settings.OnEntryDone = func(p string) {
		mu.Lock()
		doneCnt++
		take := doneCnt == s.SnapAt && !snapped
		if take {
			snapped = true
		}
		mu.Unlock()
		if take {
			// first the resume file, then the tree: anything seen incomplete in the snapshot was
			// incomplete when the resume file had that content (entries are written once)
			rb, rerr := os.ReadFile(resumeFile)
			if rerr == nil {
				os.WriteFile(snapResume, rb, 0o644)
			}
			lib.CopyTree(out, snapDir)
			hr.release()
		}
	}
	er1, err := archiver.ExtractZip(hr, int64(len(arc)), out, settings)
	hr.release()
	if err != nil {
		res.Violate("extractzip-error", desc, err.Error())
		return res
	}
	res.Add("extractions", 1)
	c19Compare(&res, desc+" (first pass)", out, tree, er1, zipCounts(zr, 0), "first-pass")
	if !snapped {
		res.Add("snapshots_not_reached", 1)
		return res
	}
	res.Add("snapshots", 1)
	if hr.held > 0 {
		res.Add("snapshots_with_forced_out_of_order_completion", 1)
	}
	rb, _ := os.ReadFile(snapResume)
	rdesc := fmt.Sprintf("%s holdEntry=%d snapAt=%d resumeFile=%q", desc, hold, s.SnapAt, string(rb))
	// second extraction on the crash state with the copied resume file
	resume2 := filepath.Join(env.Scratch, "resume2.txt")
	if len(rb) > 0 || fileExists(snapResume) {
		os.WriteFile(resume2, rb, 0o644)
	}
	settings2 := archiver.ExtractSettings{Consumer: lib.Quiet(), Concurrency: s.Workers, ResumeFrom: resume2}
	if _, err := os.Stat(snapDir); err != nil {
		os.MkdirAll(snapDir, 0o755)
	}
	er2, err := archiver.ExtractZip(bytes.NewReader(arc), int64(len(arc)), snapDir, settings2)
	if err != nil {
		res.Violate("resumed-extractzip-error", rdesc, err.Error())
		return res
	}
	res.Add("resumed_extractions", 1)
	skipTo := 0
	if idx, err := strconv.ParseInt(string(rb), 10, 64); err == nil && fileExists(snapResume) {
		skipTo = int(idx) + 1 // the extractor's own reading of the file
	}
	got, rerr := lib.ReadTree(snapDir)
	if rerr != nil {
		res.Inconclusive(rerr.Error())
		return res
	}
	if ds := lib.DiffBuilds(got, tree, false); len(ds) > 0 {
		res.Violate("resumed-extraction-incomplete", append([]string{rdesc}, lib.DiffStrings(ds, 6)...)...)
	}
	want := zipCounts(zr, skipTo)
	if er2.Dirs != want.dirs || er2.Files != want.files || er2.Symlinks != want.links {
		res.Violate("resumed-counts-wrong", rdesc, fmt.Sprintf("reported %+v, entries not skipped: %+v", *er2, want))
	}
	// history: a run that completed must leave nothing behind that changes the next one - a second, independent
	// extraction with the SAME resume file path into a fresh empty directory has to reproduce the whole tree
	time.Sleep(5 * time.Millisecond)
	out3 := filepath.Join(env.Scratch, "out3")
	settings3 := archiver.ExtractSettings{Consumer: lib.Quiet(), Concurrency: s.Workers, ResumeFrom: resumeFile}
	stale, _ := os.ReadFile(resumeFile)
	er3, err := archiver.ExtractZip(bytes.NewReader(arc), int64(len(arc)), out3, settings3)
	if err != nil {
		res.Violate("second-extraction-error", desc, err.Error())
	} else {
		got3, _ := lib.ReadTree(out3)
		if got3 == nil {
			got3 = lib.NewBuild()
		}
		if ds := lib.DiffBuilds(got3, tree, false); len(ds) > 0 {
			res.Violate("second-extraction-with-same-resume-path-incomplete", append([]string{desc, fmt.Sprintf("resume file left behind by the completed first run: %q", string(stale))}, lib.DiffStrings(ds, 5)...)...)
		}
		w3 := zipCounts(zr, 0)
		if er3.Dirs != w3.dirs || er3.Files != w3.files || er3.Symlinks != w3.links {
			res.Violate("second-extraction-counts-wrong", desc, fmt.Sprintf("reported %+v, archive has %+v (resume file left behind: %q)", *er3, w3, string(stale)))
		}
		res.Add("second_extractions_same_resume_path", 1)
	}
	res.Feat = []string{fmt.Sprintf("%s|resume|w=%d|snap=%d|hold=%d", s.Tree, s.Workers, s.SnapAt, hold)}
	if c.ID%17 == 0 {
		res.Sample = map[string]interface{}{"tree": s.Tree, "workers": s.Workers, "snapshotAtCompletion": s.SnapAt, "heldEntry": hold, "resumeFileContent": string(rb), "heldReads": hr.held}
	}
	return res
}

func fileExists(p string) bool {
	_, err := os.Stat(p)
	return err == nil
}

func c19Compare(res *lib.Result, desc, out string, tree *lib.Build, er *archiver.ExtractResult, want entryCounts, label string) {
	got, err := lib.ReadTree(out)
	if err != nil {
		res.Inconclusive(err.Error())
		return
	}
	if ds := lib.DiffBuilds(got, tree, false); len(ds) > 0 {
		res.Violate("extracted-tree-differs:"+diffKinds(ds), append([]string{desc}, lib.DiffStrings(ds, 6)...)...)
	}
	res.Add("trees_compared", 1)
	if er.Dirs != want.dirs || er.Files != want.files || er.Symlinks != want.links {
		res.Violate("reported-counts-wrong", desc, fmt.Sprintf("ExtractResult %+v, archive has dirs=%d files=%d symlinks=%d", *er, want.dirs, want.files, want.links))
	}
}

func init() {
	lib.Register(&lib.Property{
		ID:           "C19",
		Level:        "exploration",
		Rule:         "trees (nested + empty dirs, empty files, symlinks to files / dirs / dangling, 600 tiny files, 1-3 MiB files among tiny ones) archived with archiver.CompressZip, containerarchiver.CompressZip (also from a pool that archived or hashed the tree before, incl. a one-file tree) and CompressTar, the source directory named canonically or as dir/, dir/., a//dir, a/./dir, a/x/../dir, extracted into an empty directory (ExtractZip on a reader, or ExtractPath on the archive file in every third case) with worker counts -1 and 1..16; oracle: independent tree comparison and ExtractResult counts against the archive's entry list read with the standard library. Resumable zip extraction: inside OnEntryDone for the j-th completion the monitor snapshots first the resume file then the destination tree (= what a crash leaves), while a harness io.ReaderAt holds back the data of an earlier entry until the snapshot is taken (forced out-of-order completion, bounded wait; with one worker this degenerates to in-order); a second extraction runs on the snapshot with the copied resume file and must end with the complete tree and counts equal to the entries not skipped. Race-detector pass with 2/4/16 workers; every report with a frame in wharf/archiver is a violation. distinct = distinct (tree, format, workers | snapshot point, held entry)",
		Assumptions:  []string{"a crash is modelled as a snapshot of resume file then tree (file contents only; no kernel-level reordering)", "tar extraction is sequential by construction"},
		Flavors:      func(tier string) []string { return []string{"plain", "race"} },
		Cases:        c19Cases,
		Run:          c19Run,
		Batch:        6,
		CaseBudget:   300 * 1e9,
		RaceDeciding: true,
		RaceFilter:   func(rep string) bool { return strings.Contains(rep, "wharf/archiver") },
	})
}
