#!/bin/bash
# tools/process_seed7.sh <ID> [EXTRA checks]  — round-7 deliverables in /tmp/seed/out7-<ID>/{J,K}
ID=$1; shift
git -C /repo worktree remove --force /tmp/seed/wt7-$ID 2>/dev/null
ids=""
for x in N P; do /verif/tools/confirm_seed.sh /tmp/seed/out7-$ID/$x $ID-$x 2>&1 | grep -E "CONFIRMED|apply" ; [ -d /verif/seeded/$ID-$x ] && ids="$ids $ID-$x"; done
[ -n "$ids" ] && EXTRA="$*" /verif/tools/seedmatrix.sh $ids 2>&1 | grep -E "^==|rc=" | paste - - | cut -c1-300
