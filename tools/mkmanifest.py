#!/usr/bin/env python3
"""Regenerates /verif/MANIFEST.json from the table below (kept in one place so the
manifest is always schema-valid). Usage: tools/mkmanifest.py"""
import json, os, subprocess
HERE = os.path.dirname(os.path.dirname(os.path.abspath(__file__)))

# id -> (level, technique, level text, level note, design ref)
CHECKS = {
 "C01": ("exploration", "reference-model monitor: independent tree oracle + trace-specification check of the patch stream over generated build pairs; race detector and ASan passes (thorough)",
         "Every generated (old,new) pair is diffed and applied by the real code under 3 of the 25 compression settings (all 25 occur in each run) and the output directory is compared entry by entry with the new build by an oracle that never goes through wharf; the patch bytes are re-parsed by an independent decoder against the framing grammar. Held-on-N-executions, not a proof.",
         "Trusted: protobuf runtime + generated message types (shared with wharf), tlc.WalkAny (cross-checked per case against an independent walk), the Go standard library gzip and the C brotli decoder used by the independent stream reader.", "§5 C01"),
 "C02": ("exploration", "invariant monitor (inode/mtime/checksum snapshots before Resume vs before Commit) + independent tree oracle + three-way agreement with fresh application; commit operation sequences recorded from BOWL_OVERLAY_VERBOSE event log across repeated commits",
         "Each generated pair (weighted to renames, swaps, chains, duplicates, patched-and-renamed files, kind swaps) is applied in place through the overlay bowl several times from identical starting states with plain and optimized patches; the directory must be bit-for-bit untouched (inode, mtime, size, checksum) until Commit and equal to the new build afterwards. Map-iteration orders of the commit phase are sampled by repetition and the distinct operation sequences observed are counted. Four kind-swap classes are recorded as known findings.",
         "Trusted: file-system timestamps/inodes on the scratch tmpfs; the fresh-bowl result is cross-checked against the in-memory new build, not assumed.", "§5 C02"),
}
PENDING = {}

def main():
    props = [json.loads(l) for l in open(os.path.join(HERE, "properties.jsonl"))]
    hooks_commits = []
    hc = os.path.join(HERE, "hook_commits.txt")
    if os.path.exists(hc):
        hooks_commits = [l.split()[0] for l in open(hc) if l.strip() and not l.startswith("#")]
    m = {
        "version": 1,
        "setup_cmd": "./setup.sh",
        "hooks": {
            "guard": "verif",
            "enable": "go build -tags verif (the harness module replaces github.com/itchio/wharf with /repo's working tree; hooks are plain functions in verifhook_on.go files, compiled only with the tag)",
            "baseline_off_cmd": "./baseline_off.sh",
            "source_commits": hooks_commits,
            "add_only": True,
        },
        "engines": [{
            "name": "verifd",
            "path": "harness/",
            "serves_properties": sorted(CHECKS),
            "kind_free_text": "Go supervisor + child processes running the real wharf packages under monitors (reference models, invariant checks at hooks, offline checkers over event logs), the Go race detector and ASan",
        }],
        "checks": [],
        "not_applicable": [],
        "notes": "Technique family: runtime monitoring and sanitizers. ./check <ID> [--tier quick|thorough] [--seed N] [--replay file]; exit 0 held / 1 VIOLATION / 2 INCONCLUSIVE. Known findings: known_findings.json. See DESIGN.md.",
    }
    for p in props:
        pid = p["id"]
        if pid in CHECKS:
            level, tech, text, note, ref = CHECKS[pid]
            m["checks"].append({
                "property_id": pid,
                "quick_cmd": f"./check {pid} --tier quick",
                "thorough_cmd": f"./check {pid} --tier thorough",
                "evidence_file": f"/verif/evidence/{pid}.json",
                "replay_cmd_template": f"./check {pid} --replay {{path}}",
                "engine": "verifd",
                "level_claimed": {"category": level, "text": text, "design_ref": ref},
                "level_note": note,
                "technique": tech,
            })
        else:
            m["not_applicable"].append({"property_id": pid, "reason": PENDING.get(pid, "check not built yet in this revision of /verif (runtime monitoring does apply; see DESIGN.md §5)")})
    json.dump(m, open(os.path.join(HERE, "MANIFEST.json"), "w"), indent=1)
    print("wrote MANIFEST.json:", len(m["checks"]), "checks,", len(m["not_applicable"]), "not claimed")

main()
