#!/usr/bin/env python3
"""Regenerates /verif/MANIFEST.json from the table below (kept in one place so the
manifest is always schema-valid). Usage: tools/mkmanifest.py"""
import json, os, subprocess
HERE = os.path.dirname(os.path.dirname(os.path.abspath(__file__)))

# id -> (level, technique, level text, level note, design ref)
CHECKS = {
 "C01": ("exploration", "reference-model monitor: independent tree oracle + trace-specification check of the patch stream over generated build pairs; race detector and ASan passes (thorough)",
         "Every generated (old,new) pair is diffed and applied by the real code under 3 of the 25 compression settings (all 25 occur in each run) and the output directory is compared entry by entry with the new build by an oracle that never goes through wharf; the patch bytes are re-parsed by an independent decoder against the framing grammar. Held-on-N-executions, not a proof.",
         "Every third application reads the old build through a pool that hands a just-used reader back at an arbitrary position (lib.StalePool). Trusted: protobuf runtime + generated message types (shared with wharf), tlc.WalkAny (cross-checked per case against an independent walk), the Go standard library gzip and the C brotli decoder used by the independent stream reader.", "§5 C01"),
 "C02": ("exploration", "invariant monitor (inode/mtime/checksum snapshots before Resume vs before Commit) + independent tree oracle + three-way agreement with fresh application; commit operation sequences recorded from the BOWL_OVERLAY_VERBOSE event log across repeated commits",
         "Each generated pair (weighted to renames, swaps, chains, duplicates, patched-and-renamed files, kind swaps) is applied in place through the overlay bowl several times from identical starting states with plain and optimized patches; the directory must be bit-for-bit untouched (inode, mtime, size, checksum) until Commit and equal to the new build afterwards. Map-iteration orders of the commit phase are sampled by repetition and the distinct operation sequences observed are counted. Four kind-swap classes are recorded as known findings.",
         "Trusted: file-system timestamps/inodes on the scratch tmpfs; the fresh-bowl result is cross-checked against the in-memory new build, not assumed.", "§5 C02"),
 "C03": ("fault_enumeration", "crash-point enumeration with a harness-side crash model: every checkpoint index x lag x forward-only damage, resumed in a brand-new patcher+bowl from the gob round-tripped checkpoint; bounded-progress monitor on ShouldSave/Save events",
         "For each (patch family, bowl, plain/optimized, compression) one always-save run records every checkpoint and the on-disk state there; then every k (sampled only above a cap) is resumed on the state of checkpoint k+lag after forward-only damage, plus runs aborted mid-operation by injected read errors, chains of repeated interruptions and a consumer that pauses asking for tens of MiB of stream; final tree must equal the new build. 'Eventually given checkpoints' is decided as bounded progress on purpose-sized families per (algorithm, quality class).",
         "Crash = loss of any suffix of post-checkpoint writes at file-content level; no kernel write reordering; crash points end before Commit starts.", "§5 C03"),
 "C04": ("exploration", "reference-model monitor: signature written from the specification (own weak hash + crypto/md5) compared hash-by-hash with both producers; race detector pass on the diff-time producer",
         "Builds with sizes swept around 16K/32K/64K multiples, empty files, many tiny files, case-twin paths; diff-time signing through a source pool that slices every read randomly and yields, and stand-alone signing; every compression setting of the signature stream; validation of the pristine build in both modes must report nothing, also for a validator context that has just validated a damaged copy; symlink destinations spelled in non-normal forms; every third case runs four validations at the same time; builds that are one regular file (one pool object signs stand-alone and at diff time, the file itself is the validation target).",
         "Trusted: crypto/md5; the independent stream decoder.", "§5 C04"),
 "C05": ("fault_enumeration", "fault enumeration with an independent truth oracle: boundary-directed damage list applied to signed trees, wounds read from the .pww event log by the independent decoder, coverage of every differing offset checked",
         "Every damage of the list (bit flips at block edges, truncation/extension around every block boundary, long garbled runs beyond the 4 MiB aggregation limit, kind swaps, symlink retargeting, directory replaced by a symlink to another existing directory) alone and in random combinations; truth is the byte-wise comparison of the damaged tree with the reference; fail-fast and wounds-file modes; weak-hash-preserving edits (also in each of several identical consecutive blocks); length change + content change in the same file; symlinks retargeted to another spelling of the signed destination; every deviating directory / symlink must be named by a wound of its kind and index; a named pipe in place of a file; validator contexts that validated a pristine sibling build (same layout, other content and signature) before.",
         "A non-nil error from non-fail-fast Validate counts as 'not declared valid' (counted).", "§5 C05"),
 "C07": ("exploration", "reference-model monitor + quiescence-based hang detector around the real optimizer over a parameter grid; child-process isolation attributes process-fatal panics",
         "Patches from pairs emphasising tiny new/old files, files smaller than the partition count, rename+edit, equal shares, several optimized files with decreasing old sizes and content moved from the bigger into the smaller file, a single optimized file; pools shared across the optimizer runs of a case (odd cases); partitions 0..16 x ForceMapAll x suffix-sort concurrency x size limits x output compression; the optimized patch is decoded against the grammar and applied fresh and in place; result compared with the new build.",
         "In-place application skipped for kind-swap pairs (known C02 findings).", "§5 C07"),
 "C08": ("exploration", "conservation monitor over the independently decoded patch: per-file DATA/BLOCK_RANGE accounting cross-checked with the differ's counters; edit bound evaluated per file",
         "Identical builds, renames, duplicates, contents rotated between existing paths, existing path overwritten by a copy of another old file, k localized edits at boundary-directed offsets; fresh+reused must equal the new size, files present in the old build carry no DATA bytes, fresh <= introduced + (2k+2)*64KiB; a third of the diffs read the new build through a short-reading pool.",
         "High-entropy content only (the statement's domain).", "§5 C08"),
 "C09": ("fault_enumeration", "fault enumeration: boundary-directed damage to the old build after diffing, application through the real safekeeper, oracle 'error or exactly the new build'",
         "Pairs reusing old data by block ranges, bsdiff series, whole-file copies (aligned / unaligned / duplicated to several paths), each with every damage of the list to every old file, plain and optimized patches, fresh bowl wired through the safekeeper; two old files whose paths differ only by case; a kept file followed by a new file that starts with its first blocks; odd cases read through a pool that hands a just-used reader back at an arbitrary position; plus signatures that cannot be loaded (open error / truncated / garbage) with and without damage.",
         "Safekeeper wired as both target pool and the fresh bowl's TargetPool.", "§5 C09"),
 "C10": ("fault_enumeration", "fault enumeration over malformed inputs: truncation at every byte + field/structural mutation through an independent re-encoder; oracle = the call returns (recover, child-exit attribution, quiescence detector)",
         "Valid plain/optimized/first-install (empty old build) patches, signatures and overlays re-framed uncompressed, gzip and brotli; every truncation point of the uncompressed streams and every index/span/length/seek/kind field set to boundary and huge values, pairs of fields damaged together (wrapping sums), data ops turned into block ranges, end markers dropped/duplicated/inserted, hash counts wrong (through the stream and as a signature value handed to the hash grouping directly); fed to patcher (fresh+dry bowl, with and without a source-index whitelist), optimizer, signature reader + hash grouping + validating pool, overlay applier.",
         "Containers never mutated; every message carries its true length (the property's domain).", "§5 C10"),
 "C11": ("exploration", "monitoring every execution of finite sub-spaces (exhaustive small scopes) + random large cases: recorded operations replayed by a reference replayer and the real ApplySingle / ApplyPatch, structural predicates on the op list",
         "~5*10^7 exhaustive executions (quick) over block sizes 1..4, 1-3 old files, alphabets 2-3, every preferred index, plus random cases with new content > 4 MiB crossing the internal buffer wrap at every phase.",
         "The property's full small-scope statement is not enumerated; exhaustive=true names the sub-spaces.", "§5 C11"),
 "C12": ("exploration", "monitoring every execution (exhaustive low end + random + context-reuse sequences) with a reference bsdiff applier, the real patcher path, mid-series resume; lrufile checked against an in-memory model; schedule perturbation at bsdiff hooks; race detector pass",
         "All (old,new) over small alphabets for partitions up to 16; random shapes up to 6 MiB under GOMAXPROCS 1/2/16 with perturbed and reversed worker completion; one DiffContext reused across related pairs; random Seek/Read programs on lrufile with tiny geometries.",
         "EOF-with-last-bytes treated as equivalent to EOF-on-next-read.", "§5 C12"),
 "C13": ("exploration", "round-trip monitor with reused message structs + checkpoint enumeration: every popped reader checkpoint is gob round-tripped and resumed in a new reader (serialized at pop time or only after the pass), and the source read to its end is resumed again through a new reader; ASan pass on the C brotli encoder",
         "Message sequences with payload sizes straddling the 32 KiB buffer and every power of two up to 4 MiB+1, all 25 settings, save requests at every boundary of sequences <= 64 messages; last pop after end-of-stream in half of the passes; a reader rewound while it holds a later, un-popped checkpoint; purpose-sized sequences for slow-checkpointing settings.",
         "WantSave/PopCheckpoint driven in the patcher's pattern.", "§5 C13"),
 "C14": ("exploration", "reference-model monitor: overlay produced by the real writer under arbitrary write partitions / flushes / sessions, applied by the real applier and by a reference applier over independently decoded ops; the same through the overlay bowl's entry writer (Save/Resume sessions in brand-new bowls, abandon-and-restart) and Commit",
         "Equal and differing runs around the 8 KiB threshold and the 128 KiB window, shifted content (insertions/deletions) with flushes exactly at the edit points, multi-session production from reported offsets, stale junk in the overlay file; a third of the cases go through the overlay bowl (entry-writer checkpoints gob round-tripped, writes after the checkpoint left behind, new = old minus a leading chunk for restarted files).",
         "Old-content reader returns full reads.", "§5 C14"),
 "C17": ("exploration", "call-log monitor: recording bowl and recording target pool checked against the whitelist and against references computed from the independently decoded patch; all 2^n subsets for n <= 8",
         "Patches mixing every series kind; every subset (or structured + random subsets above 8 files), nil whitelist, stop/resume on the same patcher; touched count, bowl calls, file bytes, old-build read set.",
         "A file resumed after a stop may ask for its writer again.", "§5 C17"),
 "C06": ("fault_enumeration", "fault enumeration x forced and perturbed schedules at build-tag hooks in validator/healer; independent tree oracle after return; quiescence-based hang detector; race detector pass (thorough)",
         "Every damage class (incl. subtree-hiding kind swaps, emptied/missing directory) is healed from a zip made by wharf under validator-first, healer-first and seeded perturbed schedules with GOMAXPROCS 1/4/16; all signed entries must be exact afterwards and AssertValid nil; every third damaged case heals a second time with the same context (the first call's consumer goroutine parked at a hook until the second call runs); a build signed from a zip without directory entries; a valid directory must stay untouched (inode/mtime/checksum). The evidence counts runs where a hidden child was checked before / after its parent was healed; a run that saw only one order is inconclusive.",
         "Schedule space is sampled, not enumerated; extra unsigned files may remain.", "§5 C06"),
 "C15": ("exploration", "determinism monitor (byte equality of patch/signature/optimizer output across runs under perturbed read slicing, sinks, bsdiff hooks and GOMAXPROCS 1/2/4/16) + Go race detector as a deciding oracle",
         "Each pair is diffed R times with a different controller seed per run (the second run on a DiffContext object that diffed a decoy old build before; optimizer runs share pools) and optimized R times per parameter set; any byte difference is a violation; the same reduced list runs under -race and every de-duplicated report with a frame in the differ/optimizer pipelines is a violation.",
         "Race detector sees executed interleavings only; map order sampled by repetition.", "§5 C15"),
 "C16": ("fault_enumeration", "fault/cancellation-instant enumeration at build-tag hooks + quiescence-based deadlock detector over goroutine dumps; independent truth for the fail-fast verdict; forced cancel-inside-healer schedule",
         "Builds up to 2500 directories / 1300 files with 1023/1024/1025 wounds; consumers fail-fast, wounds file (good / missing dir / /dev/full), printer, healer (good / missing / corrupted archive); a file worker that fails (signature one hash short); a named pipe in place of a file; a target that is one regular file cut at block boundaries; cancellation before the call, at directory checks, at the main select and file start of every file, after queueing, before closing the wound channel, inside the healer between its context check and queueing, and from OnProgress callbacks. Validate must return; fail-fast nil implies the tree really matches; after a cancelled fail-fast run the same context validates once more and must return the true verdict.",
         "Leftover goroutines are reported, not judged.", "§5 C16"),
 "C18": ("exploration", "reference-model monitor: block-wise truth computed by the harness; inner pool records every byte; wound/marker log checked for order, tiling and exactness; the call that completes the first bad block must be the one that fails",
         "Signed sizes around block multiples, written data differing in every subset of blocks / deleted / duplicated / swapped / extended / prefixes, all write slicings, error mode (stop-and-close and keep-writing drivers) and wound mode (raw and aggregated); also written the patcher's way through a pool bowl (entry writer and Transpose out of plain and short-reading target pools).",
         "Ranges of wounds beyond the signed block count are not judged.", "§5 C18"),
 "C19": ("exploration", "independent tree oracle + entry-count oracle from the standard library reader; crash-state snapshots inside OnEntryDone with forced out-of-order completion through a harness io.ReaderAt; race detector as a deciding oracle for the archiver",
         "Trees with empty dirs, symlinks, 600 tiny files, MiB-sized files among tiny ones; zip (both producers) and tar; worker counts -1 and 1..16 (ExtractZip and the path-based ExtractPath); resumed extraction from snapshots taken at enumerated completion points must end complete with counts equal to the entries not skipped; -race pass with 2/4/16 workers.",
         "Crash = snapshot of resume file then tree.", "§5 C19"),
}
PENDING = {}

def main():
    props = [json.loads(l) for l in open(os.path.join(HERE, "properties.jsonl"))]
    hooks_commits = []
    hc = os.path.join(HERE, "hook_commits.txt")
    if os.path.exists(hc):
        hooks_commits = [l.split()[0] for l in open(hc) if l.strip() and not l.startswith("#")]
    m = {
        "version": 1,
        "setup_cmd": "./setup.sh",
        "hooks": {
            "guard": "verif",
            "enable": "go build -tags verif (the harness module replaces github.com/itchio/wharf with /repo's working tree; hooks are plain functions in verifhook_on.go files, compiled only with the tag)",
            "baseline_off_cmd": "./baseline_off.sh",
            "source_commits": hooks_commits,
            "add_only": True,
        },
        "engines": [{
            "name": "verifd",
            "path": "harness/",
            "serves_properties": sorted(CHECKS),
            "kind_free_text": "Go supervisor + child processes running the real wharf packages under monitors (reference models, invariant checks at hooks, offline checkers over event logs), the Go race detector and ASan",
        }],
        "checks": [],
        "not_applicable": [],
        "notes": "Technique family: runtime monitoring and sanitizers. ./check <ID> [--tier quick|thorough] [--seed N] [--replay file]; exit 0 held / 1 VIOLATION / 2 INCONCLUSIVE. Known findings: known_findings.json. See DESIGN.md.",
    }
    for p in props:
        pid = p["id"]
        if pid in CHECKS:
            level, tech, text, note, ref = CHECKS[pid]
            m["checks"].append({
                "property_id": pid,
                "quick_cmd": f"./check {pid} --tier quick",
                "thorough_cmd": f"./check {pid} --tier thorough",
                "evidence_file": f"/verif/evidence/{pid}.json",
                "replay_cmd_template": f"./check {pid} --replay {{path}}",
                "engine": "verifd",
                "level_claimed": {"category": level, "text": text, "design_ref": ref},
                "level_note": note,
                "technique": tech,
            })
        else:
            m["not_applicable"].append({"property_id": pid, "reason": PENDING.get(pid, "check not built yet in this revision of /verif (runtime monitoring does apply; see DESIGN.md §5)")})
    json.dump(m, open(os.path.join(HERE, "MANIFEST.json"), "w"), indent=1)
    print("wrote MANIFEST.json:", len(m["checks"]), "checks,", len(m["not_applicable"]), "not claimed")

main()
