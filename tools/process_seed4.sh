#!/bin/bash
# tools/process_seed4.sh <n> <ID> [EXTRA checks]  — round-4 deliverables in /tmp/seed/out4-<n>/{G,H}, stored as <ID>-G<n>/<ID>-H<n>
N=$1; ID=$2; shift 2
git -C /repo worktree remove --force /tmp/seed/wt4-$N 2>/dev/null
ids=""
for x in G H; do /verif/tools/confirm_seed.sh /tmp/seed/out4-$N/$x $ID-$x 2>&1 | grep -E "CONFIRMED|apply" ; [ -d /verif/seeded/$ID-$x ] && ids="$ids $ID-$x"; done
[ -n "$ids" ] && EXTRA="$*" /verif/tools/seedmatrix.sh $ids 2>&1 | grep -E "^==|rc=" | paste - - | cut -c1-300
