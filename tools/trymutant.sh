#!/bin/bash
# tools/trymutant.sh <patch.diff> <ID> [<ID>...]   — runs quick checks against a scratch worktree of /repo
# with the patch applied (VERIF_REPO), never touching /repo. Prints one line per check. Removes the worktree.
# env: TIER (default quick), SEED (default 1), KEEP=1 keeps the worktree
set -u
PATCH="$(readlink -f "$1")"; shift
WT=$(mktemp -d /tmp/mut-XXXXXX); rmdir "$WT"
git -C /repo worktree add -q --detach "$WT" HEAD || exit 3
cleanup() { [ "${KEEP:-0}" = 1 ] || { git -C /repo worktree remove --force "$WT" 2>/dev/null; rm -rf "/verif/.build/alt$(echo "$WT" | tr '/' '_')"; }; }
trap cleanup EXIT
if ! git -C "$WT" apply "$PATCH" 2>/dev/null; then
  if ! git -C "$WT" apply -3 "$PATCH" 2>/dev/null; then echo "PATCH DOES NOT APPLY: $PATCH"; exit 4; fi
fi
for id in "$@"; do
  out=$(VERIF_REPO="$WT" /verif/check "$id" --tier "${TIER:-quick}" --seed "${SEED:-1}" 2>&1); rc=$?
  echo "$id rc=$rc $(echo "$out" | grep -c '^VIOLATION') violation-lines :: $(echo "$out" | grep '^VIOLATION' | head -3 | sed 's/replay=[^ ]* //' | tr '\n' '|')"
  [ "${VERBOSE:-0}" = 1 ] && echo "$out" | tail -15
done
# evidence files were rewritten by the mutant run: restore the committed ones
git -C /verif checkout -- evidence 2>/dev/null
