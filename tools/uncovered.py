#!/usr/bin/env python3
"""tools/uncovered.py <textfmt profile> — lists statement blocks of the files the properties are anchored in that no
check reached, leaving out blocks that only return/propagate an error."""
import json,re,collections,sys
anch=set()
for l in open('/verif/properties.jsonl'):
    anch.update(json.loads(l)['anchors'].get('files',[]))
blocks=collections.defaultdict(dict)
for l in open(sys.argv[1]):
    if l.startswith('mode:'): continue
    m=re.match(r'(.+):(\d+)\.(\d+),(\d+)\.(\d+) (\d+) (\d+)',l)
    f=m.group(1).replace('github.com/itchio/wharf/','')
    k=(int(m.group(2)),int(m.group(3)),int(m.group(4)),int(m.group(5)))
    blocks[f][k]=max(blocks[f].get(k,0),int(m.group(7)))
for f in sorted(blocks):
    if f not in anch: continue
    src=open('/repo/'+f).read().split('\n')
    unc=sorted(k for k,v in blocks[f].items() if v==0)
    out=[]
    for a,ac,b,bc in unc:
        body=[s.strip() for s in src[a:b-1] if s.strip()] if b>a else [src[a-1][ac-1:bc].strip()]
        if not body: body=[src[a-1].strip()]
        txt=' '.join(body)
        if re.fullmatch(r'(return [^;]*(err|Err|errors\.\w+\(.*\))[^;]*)',txt) and len(body)==1: continue
        if re.fullmatch(r'(rErr = .*|return)',txt): continue
        out.append((a,b,body))
    if not out: continue
    print('=====',f,len(out),'of',len(blocks[f]),'blocks')
    for a,b,body in out:
        print(' -- %d-%d: %s'%(a,b,' | '.join(body)[:260]))
