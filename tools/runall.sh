#!/bin/bash
# tools/runall.sh [tier] [seed]  — runs every check once, prints the summary line of each
TIER="${1:-quick}"; SEED="${2:-1}"
cd /verif
for id in $(python3 -c "import json;print(' '.join(c['property_id'] for c in json.load(open('MANIFEST.json'))['checks']))"); do
  t0=$(date +%s)
  out=$(./check $id --tier $TIER --seed $SEED 2>&1); rc=$?
  echo "$id rc=$rc $(( $(date +%s)-t0 ))s :: $(echo "$out" | grep -E '^property=' | tail -1 | cut -c1-200)"
  echo "$out" | grep -E '^VIOLATION|^INCONCLUSIVE' | cut -c1-300 | head -5
done
