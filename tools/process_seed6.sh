#!/bin/bash
# tools/process_seed6.sh <ID> [EXTRA checks]  — round-6 deliverables in /tmp/seed/out6-<ID>/{J,K}
ID=$1; shift
git -C /repo worktree remove --force /tmp/seed/wt6-$ID 2>/dev/null
ids=""
for x in L M; do /verif/tools/confirm_seed.sh /tmp/seed/out6-$ID/$x $ID-$x 2>&1 | grep -E "CONFIRMED|apply" ; [ -d /verif/seeded/$ID-$x ] && ids="$ids $ID-$x"; done
[ -n "$ids" ] && EXTRA="$*" /verif/tools/seedmatrix.sh $ids 2>&1 | grep -E "^==|rc=" | paste - - | cut -c1-300
