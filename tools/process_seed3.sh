#!/bin/bash
# tools/process_seed3.sh <ID> [letters...]  — round-3 deliverables in /tmp/seed/out3-<ID>/<L>
ID=$1; shift; L="${@:-E F}"
git -C /repo worktree remove --force /tmp/seed/wt3-$ID 2>/dev/null
ids=""
for x in $L; do /verif/tools/confirm_seed.sh /tmp/seed/out3-$ID/$x $ID-$x 2>&1 | grep -E "CONFIRMED|apply" ; [ -d /verif/seeded/$ID-$x ] && ids="$ids $ID-$x"; done
[ -n "$ids" ] && /verif/tools/seedmatrix.sh $ids 2>&1 | grep -E "^==|rc=" | paste - - | cut -c1-260
