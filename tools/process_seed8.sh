#!/bin/bash
# tools/process_seed8.sh <ID> [EXTRA checks]  — round-8 deliverables in /tmp/seed/out8-<ID>/{J,K}
ID=$1; shift
git -C /repo worktree remove --force /tmp/seed/wt8-$ID 2>/dev/null
ids=""
for x in Q R; do /verif/tools/confirm_seed.sh /tmp/seed/out8-$ID/$x $ID-$x 2>&1 | grep -E "CONFIRMED|apply" ; [ -d /verif/seeded/$ID-$x ] && ids="$ids $ID-$x"; done
[ -n "$ids" ] && EXTRA="$*" /verif/tools/seedmatrix.sh $ids 2>&1 | grep -E "^==|rc=" | paste - - | cut -c1-300
