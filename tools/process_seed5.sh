#!/bin/bash
# tools/process_seed5.sh <ID> [EXTRA checks]  — round-5 deliverables in /tmp/seed/out5-<ID>/{J,K}
ID=$1; shift
git -C /repo worktree remove --force /tmp/seed/wt5-$ID 2>/dev/null
ids=""
for x in J K; do /verif/tools/confirm_seed.sh /tmp/seed/out5-$ID/$x $ID-$x 2>&1 | grep -E "CONFIRMED|apply" ; [ -d /verif/seeded/$ID-$x ] && ids="$ids $ID-$x"; done
[ -n "$ids" ] && EXTRA="$*" /verif/tools/seedmatrix.sh $ids 2>&1 | grep -E "^==|rc=" | paste - - | cut -c1-300
