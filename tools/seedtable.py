#!/usr/bin/env python3
"""Rewrites the seeded-change table of DESIGN.md (between the SEEDTABLE markers) from seeded/*/meta.json."""
import json,glob,os,re
rows=[]
for d in sorted(glob.glob('/verif/seeded/C*-*')):
    m=json.load(open(d+'/meta.json')); sid=os.path.basename(d); det=m.get('detection',{})
    by=[]
    for x in det.get('detected_by',[]):
        ks=', '.join(f"`{k['key'][:60]}` ({k['cases']})" for k in x['keys'][:2])
        by.append(f"{x['check']}: {ks}")
    summ=(m.get('summary') or '')[:160].replace('\n',' ').replace('|','/')
    needs=(m.get('needs') or '')[:160].replace('\n',' ').replace('|','/')
    rows.append((sid,summ,needs,'; '.join(by) if by else '**not detected**'))
out=["| seeded change | what it does | what it needs to manifest | caught by (quick tier, seed 1): key (cases) |","|---|---|---|---|"]
out+=["| "+" | ".join(r)+" |" for r in rows]
p='/verif/DESIGN.md'; s=open(p).read()
a,b='<!-- SEEDTABLE:BEGIN -->','<!-- SEEDTABLE:END -->'
s=s[:s.index(a)+len(a)]+"\n"+"\n".join(out)+"\n"+s[s.index(b):]
open(p,'w').write(s); print(len(rows),"rows")
