#!/bin/bash
# tools/seedmatrix.sh [seed-id ...] — runs the quick check of the property each seeded change targets (plus extra checks
# given as EXTRA="C11 C12") against the change, records the outcome in seeded/<id>/meta.json and prints a matrix line.
cd /verif
ids="$@"; [ -z "$ids" ] && ids=$(ls seeded | grep -E '^C[0-9]+-[A-Z]$')
for sid in $ids; do
  prop=${sid%%-*}
  line=$(tools/trymutant.sh seeded/$sid/patch.diff $prop ${EXTRA:-} 2>&1)
  echo "== $sid"; echo "$line"
  python3 - "$sid" "$line" <<'PY'
import json,sys,re
sid,line=sys.argv[1],sys.argv[2]
p=f"/verif/seeded/{sid}/meta.json"
m=json.load(open(p))
det=[];missed=[]
for l in line.splitlines():
    mm=re.match(r'^(C\d+) rc=(\d+) (\d+) violation-lines :: (.*)$',l)
    if not mm: continue
    keys=re.findall(r'key=(.*?) cases=(\d+)',mm.group(4))
    if mm.group(2)=='1' and int(mm.group(3))>0: det.append({"check":mm.group(1),"tier":"quick","seed":1,"keys":[{"key":k,"cases":int(c)} for k,c in keys]})
    else: missed.append({"check":mm.group(1),"rc":int(mm.group(2))})
m["detection"]={"detected_by":det,"not_detected_by":missed,"how":"tools/trymutant.sh: scratch worktree of /repo HEAD with patch.diff applied, ./check <ID> --tier quick --seed 1 with VERIF_REPO pointing at it"}
json.dump(m,open(p,"w"),indent=1)
PY
done
