#!/bin/bash
# tools/coverage.sh [seed] — measures which statements of wharf the QUICK tier of every check reaches.
# Builds the harness with -cover for the wharf packages, runs every supervisor with GOCOVERDIR set (children inherit it),
# merges the counters and writes coverage/package_percent_quick_seed<N>.txt plus the list of unreached non-error-return
# blocks in the files the properties are anchored in. Scratch goes to a temp dir that is removed afterwards.
# This is a measurement aid (what the monitors did NOT reach), it decides nothing.
set -u
SEED="${1:-1}"
HERE=/verif; . $HERE/env.sh
T=$(mktemp -d /tmp/verifcov-XXXXXX); trap 'rm -rf "$T"' EXIT
cd $HERE/harness && cp /repo/go.sum go.sum
"$GOT" build -tags verif -cover -coverpkg=verif/...,github.com/itchio/wharf/... -o "$T/verifd-cover" ./cmd/verifd || exit 2
mkdir -p "$T/v/evidence" "$T/v/replays"; cp $HERE/known_findings.json "$T/v/"
for id in $("$T/verifd-cover" list); do
  mkdir -p "$T/data-$id"
  GOCOVERDIR="$T/data-$id" "$T/verifd-cover" sup $id --tier quick --seed $SEED --verif "$T/v" --bin plain="$T/verifd-cover" --bin race="$T/verifd-cover" --bin asan="$T/verifd-cover" 2>&1 | grep -E "^property=|^VIOLATION|^INCONCL" | cut -c1-160
done
dirs=$(ls -d "$T"/data-* | paste -sd,)
"$GOT" tool covdata percent -i=$dirs | grep wharf | sed 's/^\s*//' > $HERE/coverage/package_percent_quick_seed$SEED.txt
"$GOT" tool covdata textfmt -i=$dirs -o "$T/all.txt"
python3 $HERE/tools/uncovered.py "$T/all.txt" > $HERE/coverage/uncovered_blocks_quick_seed$SEED.txt
cat $HERE/coverage/package_percent_quick_seed$SEED.txt
