#!/bin/bash
# tools/process_seed.sh <ID> [letters...]  — confirm agent deliverables /tmp/seed/out2-<ID>/<L> and run the matrix on them
ID=$1; shift; L="${@:-C D}"
git -C /repo worktree remove --force /tmp/seed/wt2-$ID 2>/dev/null
ids=""
for x in $L; do /verif/tools/confirm_seed.sh /tmp/seed/out2-$ID/$x $ID-$x 2>&1 | grep -E "CONFIRMED|apply" ; [ -d /verif/seeded/$ID-$x ] && ids="$ids $ID-$x"; done
[ -n "$ids" ] && /verif/tools/seedmatrix.sh $ids 2>&1 | grep -E "^==|rc=" | paste - - | cut -c1-260
