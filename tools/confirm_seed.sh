#!/bin/bash
# tools/confirm_seed.sh <agent-out-dir e.g. /tmp/seed/out-C01/A> <seed-id e.g. C01-A>
# Independently confirms a seeded change in a scratch worktree: demo passes without the change,
# fails with it, the repository suite passes with it. On success copies it to /verif/seeded/<seed-id>/.
set -u
SRC="$1"; SID="$2"
WT=$(mktemp -d /tmp/conf-XXXXXX); rmdir "$WT"
git -C /repo worktree add -q --detach "$WT" HEAD || exit 3
trap 'git -C /repo worktree remove --force "$WT" 2>/dev/null' EXIT
export GOFLAGS=-mod=mod GOPROXY=off
demos=$(ls "$SRC" | grep '_test.go$')
[ -z "$demos" ] && { echo "$SID: no demo test file"; exit 4; }
# where do the demos go? read demo.txt for a package dir; default: grep "package" heuristics
place() { # $1 = demo file
  local pkg; pkg=$(grep -m1 '^package ' "$SRC/$1" | awk '{print $2}')
  local hint; hint=$(grep -oE ' \./[a-z/]+' "$SRC/demo.txt" 2>/dev/null | head -1 | sed 's#^ \./##; s#/$##')
  [ -n "${PKGDIR:-}" ] && hint="$PKGDIR"
  [ -z "$hint" ] && hint="pwr/patcher"
  echo "$hint"
}
runpat=$(grep -hoE 'func (Test[A-Za-z0-9_]+)' $(for d in $demos; do echo "$SRC/$d"; done) | awk '{print $2}' | paste -sd'|')
pkgdir=$(place $(echo $demos | awk '{print $1}'))
mkdir -p "$WT/$pkgdir"; for d in $demos; do cp "$SRC/$d" "$WT/$pkgdir/"; done
( cd "$WT" && go test ${TESTFLAGS:-} -vet=off -count=1 -run "$runpat" "./$pkgdir/" ) > "$WT/.clean.log" 2>&1; clean_rc=$?
git -C "$WT" apply "$SRC/patch.diff" 2>/dev/null || git -C "$WT" apply -3 "$SRC/patch.diff" || { echo "$SID: patch does not apply"; exit 5; }
( cd "$WT" && go test ${TESTFLAGS:-} -vet=off -count=1 -run "$runpat" "./$pkgdir/" ) > "$WT/.mut.log" 2>&1; mut_rc=$?
for d in $demos; do rm -f "$WT/$pkgdir/$d"; done
( cd "$WT" && go test -vet=off -count=1 ./... ) > "$WT/.suite.log" 2>&1; suite_rc=$?
echo "$SID: demo_without_change rc=$clean_rc (want 0) demo_with_change rc=$mut_rc (want !=0) suite_with_change rc=$suite_rc (want 0) pkg=$pkgdir run=$runpat"
if [ $clean_rc -eq 0 ] && [ $mut_rc -ne 0 ] && [ $suite_rc -eq 0 ]; then
  mkdir -p "/verif/seeded/$SID"; cp "$SRC"/patch.diff "$SRC"/*_test.go "$SRC"/demo.txt "/verif/seeded/$SID/" 2>/dev/null
  python3 - "$SRC/meta.json" "/verif/seeded/$SID/meta.json" "$pkgdir" "$runpat" <<'PY'
import json,sys
try: m=json.load(open(sys.argv[1]))
except Exception: m={}
m["confirmed"]={"demo_passes_without_change":True,"demo_fails_with_change":True,"suite_passes_with_change":True,
 "how":"tools/confirm_seed.sh: scratch worktree of /repo HEAD; go test -run '%s' ./%s/ before and after git apply; then go test ./... with the demo removed"%(sys.argv[4],sys.argv[3])}
json.dump(m,open(sys.argv[2],"w"),indent=1)
PY
  echo "$SID: CONFIRMED -> /verif/seeded/$SID"
else
  echo "$SID: NOT CONFIRMED"; for f in clean mut suite; do echo "--- $f"; tail -n 5 "$WT/.$f.log" | cut -c1-300; done
fi
