#!/bin/bash
# tools/process_seed9.sh <ID> [EXTRA checks]  — round-10 deliverables in /tmp/seed/out10-<ID>/{U}
ID=$1; shift
git -C /repo worktree remove --force /tmp/seed/wt10-$ID 2>/dev/null
ids=""
for x in U; do /verif/tools/confirm_seed.sh /tmp/seed/out10-$ID/$x $ID-$x 2>&1 | grep -E "CONFIRMED|apply" ; [ -d /verif/seeded/$ID-$x ] && ids="$ids $ID-$x"; done
[ -n "$ids" ] && EXTRA="$*" /verif/tools/seedmatrix.sh $ids 2>&1 | grep -E "^==|rc=" | paste - - | cut -c1-300
