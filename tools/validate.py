#!/opt/veriftools/pyvenv/bin/python
"""Validates MANIFEST.json and every evidence file against the schemas."""
import json, sys, glob, jsonschema
ms = json.load(open('/root/.vp/MANIFEST.schema.json')); es = json.load(open('/root/.vp/EVIDENCE.schema.json'))
jsonschema.validate(json.load(open('/verif/MANIFEST.json')), ms); print("MANIFEST ok")
bad = 0
for f in sorted(glob.glob('/verif/evidence/*.json')):
    try:
        jsonschema.validate(json.load(open(f)), es); print(f, "ok")
    except Exception as e:
        bad += 1; print(f, "INVALID", str(e)[:300])
sys.exit(1 if bad else 0)
