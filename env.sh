# sourced by check / setup.sh: toolchain, module preparation, flavour builds
export GOFLAGS=-mod=mod GOPROXY=off GOSUMDB=off GOTOOLCHAIN=local CGO_ENABLED=1
GOT=/root/go/pkg/mod/golang.org/toolchain@v0.0.1-go1.24.0.linux-amd64/bin/go
if [ ! -x "$GOT" ]; then GOT="$(command -v go1.26)"; fi
REPO="${VERIF_REPO:-/repo}"
BUILD="${VERIF_BUILD:-$HERE/.build}"
mkdir -p "$BUILD"
MODFILE=""
prep_module() {
  # go.sum always comes from the repository being checked
  if [ "$REPO" = "/repo" ]; then
    cp /repo/go.sum "$HERE/harness/go.sum" || return 1
    MODFILE=""
  else
    # alternate repository (scratch worktree with a seeded change): separate modfile + build dir
    local tag; tag=$(echo "$REPO" | tr '/' '_')
    BUILD="$BUILD/alt$tag"; mkdir -p "$BUILD"
    sed "s#=> /repo#=> $REPO#" "$HERE/harness/go.mod" > "$BUILD/go.mod" || return 1
    cp "$REPO/go.sum" "$BUILD/go.sum" || return 1
    MODFILE="-modfile=$BUILD/go.mod"
  fi
}
build_flavor() {
  local f="$1" extra=""
  case "$f" in
    plain) extra="";;
    race) extra="-race";;
    asan) extra="-asan";;
    *) echo "unknown flavor $f"; return 1;;
  esac
  # build to a private name, then rename atomically: concurrent checks never see a half-written binary
  ( cd "$HERE/harness" && "$GOT" build $MODFILE -tags verif $extra -o "$BUILD/verifd-$f.$$" ./cmd/verifd ) 2>&1 | tail -30
  local rc=${PIPESTATUS[0]}
  if [ $rc -eq 0 ]; then mv -f "$BUILD/verifd-$f.$$" "$BUILD/verifd-$f"; else rm -f "$BUILD/verifd-$f.$$"; fi
  return $rc
}
